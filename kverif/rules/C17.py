"""C17 - homogenized mobilities address phases by name and use the phase axis symmetrically.

R17.1 phase addressing: rows of the per-stable-phase arrays are never indexed by a position in the database phase list;
      the stable phase names travel with the arrays to the post-processing functions
R17.2 symmetric use of the phase axis in the averaging rules (reductions over axis 0 only, no fixed phase index)
R17.3 registries: keyword -> id -> function tables are total and map each id to its namesake
R17.4 formula shape of the bounds: the phase sum is taken before the non-linear Hashin-Shtrikman map; Wiener / labyrinth forms
R17.5 T-PURE: averaging rules do not write into the (cached) mobility / phase-fraction arrays
R17.8 T-PURE: neither do the post-process functions (they work on copies)
R17.9 index spaces: argmax/argmin over a masked selection is not used as a row of the unfiltered array
"""
from __future__ import annotations
import ast
from .. import astutil as U
from ..symfield import SymExec, const, show
from ..formula import single_defs, inline
from ..source import AnalysisError, AnchorMissing

HP = 'kawin/diffusion/HomogenizationParameters.py'
DP = 'kawin/diffusion/DiffusionParameters.py'
AVG = ['wienerUpper', 'wienerLower', 'labyrinth', 'hashinShtrikmanUpper', 'hashinShtrikmanLower', '_hashinShtrikmanGeneral']
POST = ['_postProcessDoNothing', '_postProcessPredefinedMatrixPhase', '_postProcessMajorityPhase', '_postProcessExcludePhases']

EXPLANATION = (
    'Decides by-name addressing (a taint rule: an index obtained from the database phase list never selects a row of the '
    'per-stable-phase arrays, and the stable phase names are passed along with the arrays), symmetric use of the phase axis, '
    'totality of the keyword/id/function registries, the shape of the bound formulas with the phase sum as an opaque linear '
    'operator (sum before the non-linear Hashin-Shtrikman map), and that the averaging rules do not write into the cached '
    'arrays. Ordering of the bounds and their values are numeric and not decided.')


def r171(repo, ctx):
    f = repo.func(HP, 'computeHomogenizationFunction')
    calls = [c for c in U.calls(f) if U.call_attr(c) == 'postProcessFunction']
    ok = False
    for c in calls:
        kw = U.kwarg(c, 'phases')
        kw = inline(kw, single_defs(f)) if kw is not None else None
        if kw is not None and isinstance(kw, ast.Attribute) and kw.attr == 'phases':
            # <record>.phases where the record is what _computeSingleMobility returned for this point
            rec = kw.value
            rdef = single_defs(f).get(rec.id) if isinstance(rec, ast.Name) else rec
            if isinstance(rdef, ast.Call) and U.call_attr(rdef) == '_computeSingleMobility':
                ok = True
    ctx.check(ok and len(calls) == 1, 'R17.1', HP, 'computeHomogenizationFunction', calls[0] if calls else f,
              'the names of the stable phases (rows of the mobility / fraction arrays) are passed to the post-processing function',
              'the post-processing function is not given the names of the stable phases: it cannot address a phase by name')
    n = 0
    for fn in POST:
        g = repo.func(HP, fn)
        pn = U.params(g)
        arrays = set(pn[1:3])
        dbpos, okpos = set(), set()
        # names of lists that come from the keyword 'phases' (possibly falling back to therm.phases)
        kwlists = set()
        for s in ast.walk(g):
            if isinstance(s, ast.Assign) and isinstance(s.targets[0], ast.Name):
                txt = U.src(s.value)
                if "kwargs.get('phases'" in txt or "kwargs['phases']" in txt:
                    kwlists.add(s.targets[0].id)
        for s in ast.walk(g):
            if isinstance(s, ast.Assign):
                tnames = U.target_names(s.targets[0])
                for c in U.calls(s.value):
                    if U.call_attr(c) == 'index' and isinstance(c.func, ast.Attribute):
                        base = c.func.value
                        if U.chain(base) and U.chain(base)[-1] == 'phases' and U.chain(base)[0] in ('therm', 'self'):
                            dbpos |= tnames
                        elif isinstance(base, ast.Name) and base.id in kwlists:
                            okpos |= tnames
        for node in ast.walk(g):
            if isinstance(node, ast.For):
                for c in U.calls(node.iter):
                    if U.call_attr(c) == 'index' and isinstance(c.func, ast.Attribute) and U.chain(c.func.value) and U.chain(c.func.value)[-1] == 'phases' and U.chain(c.func.value)[0] in ('therm', 'self'):
                        dbpos |= U.target_names(node.target)
        bad = []
        for node in ast.walk(g):
            if isinstance(node, ast.Subscript) and isinstance(node.value, ast.Name) and node.value.id in arrays:
                first = node.slice.elts[0] if isinstance(node.slice, ast.Tuple) else node.slice
                used = U.names_in(first)
                if used & dbpos:
                    bad.append(U.src(node))
                for c in U.calls(first):
                    if U.call_attr(c) == 'index' and U.chain(c.func.value) and U.chain(c.func.value)[-1] == 'phases' and U.chain(c.func.value)[0] in ('therm', 'self'):
                        bad.append(U.src(node))
            # loop variables over a list of database positions
            if isinstance(node, ast.For) and isinstance(node.iter, ast.Name) and node.iter.id in dbpos:
                for sub in ast.walk(node):
                    if isinstance(sub, ast.Subscript) and isinstance(sub.value, ast.Name) and sub.value.id in arrays and U.names_in(sub.slice) & U.target_names(node.target):
                        bad.append(U.src(sub))
        n += 1
        ctx.check(not bad, 'R17.1', HP, fn, g, 'rows of the per-stable-phase arrays are selected by name among the stable phases (never by position in the database phase list)',
                  f'{bad[:2]} selects a row of a per-stable-phase array with a position taken from the database phase list: in a single-phase region this is out of range or another phase',
                  construct=f'{fn}: row addressing')
    ctx.floor('R17.1', n, 4)
    # producer: rows follow the composition sets
    f = repo.func(DP, '_computeSingleMobility')
    # the `phases` field of the record derives (through local assignments) from the phase names of the composition sets
    tainted = set()
    changed = True
    while changed:
        changed = False
        for st in ast.walk(f):
            if isinstance(st, ast.Assign):
                src_names = U.names_in(st.value)
                direct = any(isinstance(n, ast.Attribute) and n.attr == 'phase_name' and isinstance(n.value, ast.Attribute) and n.value.attr == 'phase_record'
                             for n in ast.walk(st.value))
                if direct or (src_names & tainted):
                    for t in U.flat_targets(st):
                        for nm in U.target_names(t):
                            if nm not in tainted:
                                tainted.add(nm)
                                changed = True
    ok = False
    for c in U.calls(f):
        if U.call_attr(c) == 'MobilityData':
            ph = U.kwarg(c, 'phases') or (c.args[1] if len(c.args) >= 2 else None)
            if ph is not None and (U.names_in(ph) & tainted or any(isinstance(n, ast.Attribute) and n.attr == 'phase_name' for n in ast.walk(ph))):
                ok = True
    ctx.check(ok, 'R17.1', DP, '_computeSingleMobility', f, 'the mobility record carries the names of the stable phases in row order', 'the mobility record no longer carries the stable phase names in row order')


def r177(repo, ctx):
    """the database phase list is a fallback for the row names only when the caller did not pass the stable phases: every use of
    `therm.phases` as a value in a post-processing function is the default of kwargs.get('phases', ..) or lies on paths on
    which the 'phases' keyword is known to be absent (must-analysis on the CFG).  Any other condition (equal lengths, ...)
    lets positions in the database list address rows of the per-stable-phase arrays."""
    from .. import cfg as C
    n = 0
    # the post-processing functions and every helper of the module that reads the 'phases' keyword
    cands = []
    for q_, g_ in repo.functions(HP):
        if '.' in q_ or not U.params(g_):
            continue
        if q_ in POST or any(isinstance(c, ast.Call) and U.call_name(c) == 'kwargs.get' and c.args and U.is_const(c.args[0]) and c.args[0].value == 'phases' for c in ast.walk(g_)):
            cands.append((q_, g_))
    for fn, g_ in cands:
        tn = U.params(g_)[0]
        defs = single_defs(g_)
        kwnames = {nm for nm, v in defs.items() if isinstance(v, ast.Call) and U.call_name(v) == 'kwargs.get' and v.args and U.is_const(v.args[0]) and v.args[0].value == 'phases'
                   and (len(v.args) == 1 or (isinstance(v.args[1], ast.Constant) and v.args[1].value is None))}

        def absent_facts(test, want):
            out = set()
            if isinstance(test, ast.Compare) and len(test.ops) == 1:
                l, op, r = test.left, test.ops[0], test.comparators[0]
                if isinstance(l, ast.Name) and l.id in kwnames and isinstance(r, ast.Constant) and r.value is None:
                    if (isinstance(op, ast.Is) and want) or (isinstance(op, ast.IsNot) and not want):
                        out.add('absent')
                if isinstance(l, ast.Constant) and l.value == 'phases' and isinstance(r, ast.Name) and r.id == 'kwargs':
                    if (isinstance(op, ast.NotIn) and want) or (isinstance(op, ast.In) and not want):
                        out.add('absent')
            elif isinstance(test, ast.UnaryOp) and isinstance(test.op, ast.Not):
                out |= absent_facts(test.operand, not want)
            elif isinstance(test, ast.BoolOp):
                if (isinstance(test.op, ast.And) and want) or (isinstance(test.op, ast.Or) and not want):
                    for v in test.values:
                        out |= absent_facts(v, want)
            return out
        gph = C.build(g_)

        def gen(node, label):
            if node.kind == 'test' and label in (True, False):
                return absent_facts(node.ast.test if hasattr(node.ast, 'test') else node.ast, label)
            return set()
        IN = C.must_forward(gph, gen)
        bad = []
        uses = 0
        for node in gph.nodes:
            eff = C.simple_effect_node(node)
            if eff is None or node.kind != 'stmt':
                continue
            parent = {}
            for x in ast.walk(eff):
                for c in ast.iter_child_nodes(x):
                    parent[id(c)] = x
            for x in ast.walk(eff):
                if isinstance(x, ast.Attribute) and x.attr == 'phases' and isinstance(x.value, ast.Name) and x.value.id == tn and isinstance(x.ctx, ast.Load):
                    par = parent.get(id(x))
                    if isinstance(par, ast.Call) and U.call_name(par) == 'kwargs.get' and len(par.args) == 2 and par.args[1] is x:
                        uses += 1
                        continue        # the default of kwargs.get('phases', therm.phases)
                    if isinstance(par, ast.Call) and U.call_name(par) == 'len':
                        continue        # a length, not a list of row names
                    uses += 1
                    facts = IN.get(node.id)
                    if facts is None or 'absent' not in facts:
                        bad.append(eff)
        if not uses:
            continue
        n += 1
        ctx.check(not bad, 'R17.7', HP, fn, bad[0] if bad else g_, f'the database phase list stands in for the row names only where the caller passed no stable-phase names ({uses} use(s))',
                  f'{U.src(bad[0])[:80] if bad else ""}: the database phase list is used for the row names on a path on which the caller may have passed the names of the stable phases: '
                  'rows of the per-stable-phase arrays are then addressed by position in the database list (another phase that happens to share the position)', construct=f'{fn}: fallback to therm.phases')
    ctx.floor('R17.7', n, 1)


def r172_r175(repo, ctx, purity):
    n = 0
    for fn in AVG:
        f = repo.func(HP, fn)
        pn = U.params(f)
        arrays = {pn[0], pn[1], 'modified_mob', 'Ak'}
        bad = []
        for node in ast.walk(f):
            if isinstance(node, ast.Subscript) and isinstance(node.value, ast.Name) and node.value.id in arrays and isinstance(node.ctx, ast.Load):
                first = node.slice.elts[0] if isinstance(node.slice, ast.Tuple) else node.slice
                if U.is_const(first) or (isinstance(first, ast.Name)):
                    bad.append(U.src(node))
            if isinstance(node, ast.Call) and U.call_name(node) in ('np.sum', 'np.amax', 'np.amin', 'np.prod', 'np.mean') and node.args and U.names_in(node.args[0]) & arrays:
                ax = U.kwarg(node, 'axis')
                if ax is None or not U.is_const(ax, 0):
                    bad.append(U.src(node)[:60])
        n += 1
        ctx.check(not bad, 'R17.2', HP, fn, f, 'the phase axis is consumed only by reductions over axis 0 and element-wise operations',
                  f'the phase axis is used asymmetrically ({bad[:2]}): the result depends on the order in which phases are listed', construct=f'{fn}: phase axis')
        for p in pn[:2]:
            i = purity.param_index(f, p)
            sites, _ = purity.analyse(HP, fn, f, i)
            if sites:
                for s in sites[:1]:
                    ctx.violation('R17.5', s.path, s.qual, s.node, f'{fn} writes into its {p} argument ({s.kind}); the arrays are the cached ones, so a second evaluation of the same point gives another answer',
                                  construct=U.src(s.node)[:100])
            else:
                ctx.ok('R17.5', HP, fn, f, f'no in-place write through an alias of {p}', construct=f'{fn}({p})')
    ctx.floor('R17.2', n, 6)
    # R17.8: the post-process functions receive the arrays of the mobility record, which is the object kept in the cache of the
    # diffusion models: a write through an alias of either array changes what every later evaluation of that point starts from
    m = 0
    for fn in POST:
        if not repo.has_func(HP, fn):
            continue
        f = repo.func(HP, fn)
        pn = U.params(f)
        if len(pn) < 3:
            ctx.undecided('R17.8', HP, fn, f, 'post-process function without (therm, mobility, fractions) parameters')
            continue
        for p in pn[1:3]:
            m += 1
            sites, _ = purity.analyse(HP, fn, f, purity.param_index(f, p))
            if sites:
                s = sites[0]
                ctx.violation('R17.8', s.path, s.qual, s.node, f'{fn} writes into its {p} argument ({s.kind}): that array belongs to the mobility record stored in the cache, so later '
                              'evaluations of the same point (with any post-processing, or computeMobility) start from the modified data', construct=f'{fn}({p}): {U.src(s.node)[:80]}')
            else:
                ctx.ok('R17.8', HP, fn, f, f'no in-place write through an alias of {p}', construct=f'{fn}({p})')
    ctx.floor('R17.8', m, 8)
    # R17.9 index spaces: the position returned by argmax/argmin over a masked (filtered) array counts within the selection; it
    # addresses the right row only in an array filtered by the same mask
    k = 0
    for fn in POST + AVG:
        if not repo.has_func(HP, fn):
            continue
        f = repo.func(HP, fn)
        k += 1
        for a in ast.walk(f):
            if not (isinstance(a, ast.Assign) and len(a.targets) == 1 and isinstance(a.targets[0], ast.Name) and isinstance(a.value, ast.Call)
                    and (U.call_name(a.value) or '') in ('np.argmax', 'np.argmin', 'np.nanargmax', 'np.nanargmin') and a.value.args):
                continue
            X = a.value.args[0]
            if not (isinstance(X, ast.Subscript) and not isinstance(X.slice, (ast.Slice, ast.Constant, ast.Tuple)) and not
                    (isinstance(X.slice, ast.UnaryOp) and isinstance(X.slice.operand, ast.Constant))):
                continue
            mask, idx = U.src(X.slice), a.targets[0].id
            for u in ast.walk(f):
                if isinstance(u, ast.Subscript) and u is not X:
                    first = u.slice.elts[0] if isinstance(u.slice, ast.Tuple) and u.slice.elts else u.slice
                    if isinstance(first, ast.Name) and first.id == idx:
                        same = isinstance(u.value, ast.Subscript) and U.src(u.value.slice) == mask
                        if not same:
                            ctx.violation('R17.9', HP, fn, u, f'{idx} is a position within the selection [{mask}] (it comes from {U.src(a.value)[:60]}) but indexes the rows of the unfiltered array '
                                          f'{U.src(u.value)[:40]}: whenever an excluded row precedes the selected one, another phase\'s row is addressed', construct=f'{fn}: {U.src(u)[:60]}')
    ctx.ok('R17.9', HP, '', 0, f'{k} functions: no position taken within a masked selection is used as a row of an unfiltered array', construct='index spaces')


def r173(repo, ctx, index):
    cls = repo.cls(HP, 'HomogenizationParameters')
    consts = {}
    for s in cls.body:
        if isinstance(s, ast.Assign) and isinstance(s.targets[0], ast.Name) and isinstance(s.value, ast.Constant) and isinstance(s.value.value, int):
            consts[s.targets[0].id] = s.value.value
    ctx.check(len(set(consts.values())) == len(consts) and len(consts) >= 9, 'R17.3', HP, 'HomogenizationParameters', cls, f'the {len(consts)} function ids are distinct', f'function ids collide: {consts}')
    want_h = {'WIENER_UPPER': 'wienerUpper', 'WIENER_LOWER': 'wienerLower', 'HASHIN_UPPER': 'hashinShtrikmanUpper', 'HASHIN_LOWER': 'hashinShtrikmanLower', 'LABYRINTH': 'labyrinth'}
    want_p = {'NO_POST': '_postProcessDoNothing', 'PREDEFINED': '_postProcessPredefinedMatrixPhase', 'MAJORITY': '_postProcessMajorityPhase', 'EXCLUDE': '_postProcessExcludePhases'}
    for meth, attr, want in (('_setHomogenizationFunctionByID', 'homogenizationFunction', want_h), ('_setPostProcessFunctionByID', 'postProcessFunction', want_p)):
        f = repo.func(HP, f'HomogenizationParameters.{meth}')
        # the dispatch is executed symbolically for every id (if/elif chains, early returns and loops over a literal table alike)
        got = {}
        sx = SymExec(repo, index, (HP, 'HomogenizationParameters'))
        flds = {k: const(v) for k, v in consts.items()}
        for key in want:
            if key not in consts:
                continue
            try:
                outs = [o for o in sx.run(f, args=[const(consts[key])], fields=dict(flds), symbolic=False) if o.status != 'raise']
            except AnalysisError as e:
                ctx.undecided('R17.3', HP, f'HomogenizationParameters.{meth}', f, f'dispatch could not be executed symbolically: {e}')
                outs = []
            vals = {show(o.fields.get(attr)) for o in outs if attr in o.fields}
            if len(vals) == 1 and len(outs) >= 1 and all(attr in o.fields for o in outs):
                got[key] = vals.pop().split(':')[-1]
        ctx.check(got == want, 'R17.3', HP, f'HomogenizationParameters.{meth}', f, f'every id selects its namesake function ({len(want)} entries)',
                  f'id -> function table is {got}, expected {want}', construct=f'{meth}: {got}')
        unknown = [o for o in sx.run(f, args=[const(987654)], fields=dict(flds), symbolic=False)]
        ctx.check(bool(unknown) and all(o.status == 'raise' for o in unknown), 'R17.3', HP, f'HomogenizationParameters.{meth}', f,
                  'an id that is in no table entry is rejected on every path', 'an unknown id is silently accepted on some path')
        raises = any(isinstance(s, ast.Raise) for s in ast.walk(f))
        ctx.check(raises, 'R17.3', HP, f'HomogenizationParameters.{meth}', f, 'unknown ids are rejected', 'unknown ids are silently accepted')
    f = repo.func(HP, 'HomogenizationParameters._setPostProcessFunctionByStr')
    d = [s for s in ast.walk(f) if isinstance(s, ast.Dict)]
    ok = False
    if d:
        m = {ast.literal_eval(k): U.chain(v)[-1] for k, v in zip(d[0].keys, d[0].values) if U.chain(v)}
        ok = m == {'none': 'NO_POST', 'predefined': 'PREDEFINED', 'majority': 'MAJORITY', 'exclude': 'EXCLUDE'}
    ctx.check(ok, 'R17.3', HP, 'HomogenizationParameters._setPostProcessFunctionByStr', f, 'keywords none/predefined/majority/exclude map to their ids', 'keyword -> id table of the post-process functions is wrong')
    f = repo.func(HP, 'HomogenizationParameters._setHomogenizationFunctionByStr')
    d = [s for s in ast.walk(f) if isinstance(s, ast.Dict)]
    ok = False
    want_kw = {'WIENER_UPPER': ['wiener', 'upper'], 'WIENER_LOWER': ['wiener', 'lower'], 'HASHIN_UPPER': ['hashin', 'upper'], 'HASHIN_LOWER': ['hashin', 'lower'], 'LABYRINTH': ['lab']}
    if d:
        m = {U.chain(k)[-1]: ast.literal_eval(v) for k, v in zip(d[0].keys, d[0].values) if U.chain(k)}
        ok = m == want_kw
    else:
        # written-out form: if all(kw in function for kw in (<keywords>)): self._setHomogenizationFunctionByID(self.<ID>)
        m = {}
        for i_ in ast.walk(f):
            if isinstance(i_, ast.If) and isinstance(i_.test, ast.Call) and U.call_name(i_.test) == 'all' and len(i_.test.args) == 1 \
                    and isinstance(i_.test.args[0], (ast.GeneratorExp, ast.ListComp)) and len(i_.test.args[0].generators) == 1:
                g_ = i_.test.args[0].generators[0]
                e_ = i_.test.args[0].elt
                fn_par = U.params(f)[1] if len(U.params(f)) > 1 else None
                ids = [U.chain(c.args[0])[-1] for st_ in i_.body for c in ast.walk(st_) if isinstance(c, ast.Call) and (U.call_name(c) or '').endswith('_setHomogenizationFunctionByID')
                       and c.args and U.chain(c.args[0]) and U.chain(c.args[0])[0] == 'self']
                if isinstance(g_.iter, (ast.Tuple, ast.List)) and all(isinstance(x, ast.Constant) for x in g_.iter.elts) and len(ids) == 1 and not g_.ifs \
                        and isinstance(e_, ast.Compare) and len(e_.ops) == 1 and isinstance(e_.ops[0], ast.In) and isinstance(e_.left, ast.Name) and isinstance(g_.target, ast.Name) \
                        and e_.left.id == g_.target.id and isinstance(e_.comparators[0], ast.Name) and e_.comparators[0].id == fn_par and ids[0] not in m:
                    m[ids[0]] = [x.value for x in g_.iter.elts]
        if not m:
            ctx.undecided('R17.3', HP, 'HomogenizationParameters._setHomogenizationFunctionByStr', f, 'keyword table of the averaging rules not found as a dictionary literal or a chain of keyword tests')
            ok = None
        else:
            ok = m == want_kw
    if ok is not None:
        ctx.check(ok, 'R17.3', HP, 'HomogenizationParameters._setHomogenizationFunctionByStr', f, 'keyword sets of the five averaging rules map to their ids', 'keyword -> id table of the averaging rules is wrong')


def r174(repo, ctx):
    import sympy as sp
    M, Fr, M0, nexp = sp.symbols('M f M0 n', positive=True)
    S = sp.Function('S')      # the sum over the phase axis: an opaque linear operator

    def translate(fn, env0):
        f = repo.func(HP, fn)
        env = dict(env0)

        def tr(e):
            if isinstance(e, ast.Name):
                if e.id in env:
                    return env[e.id]
                raise AnalysisError(f'free name {e.id}')
            if isinstance(e, ast.Constant):
                if isinstance(e.value, bool) or not isinstance(e.value, (int, float)):
                    raise AnalysisError(f'not translatable: literal {e.value!r}')
                return sp.Integer(e.value) if isinstance(e.value, int) else sp.Rational(repr(e.value))
            if isinstance(e, ast.Subscript):
                return tr(e.value)      # broadcasting index [:, np.newaxis]
            if isinstance(e, ast.BinOp):
                l, r = tr(e.left), tr(e.right)
                return {ast.Add: l + r, ast.Sub: l - r, ast.Mult: l * r, ast.Div: l / r, ast.Pow: l ** r}[type(e.op)]
            if isinstance(e, ast.Call):
                nm = U.call_name(e)
                if nm == 'np.sum':
                    return S(sp.simplify(tr(e.args[0])))
                if nm == 'np.average' and e.args:
                    # np.average(a, weights=w) = sum(w * a) / sum(w): the weights are normalised
                    w = [k.value for k in e.keywords if k.arg == 'weights'] or ([e.args[2]] if len(e.args) > 2 else [])
                    if w:
                        return S(sp.simplify(tr(w[0]) * tr(e.args[0]))) / S(sp.simplify(tr(w[0])))
                    return S(sp.simplify(tr(e.args[0]))) / S(sp.Integer(1))
                if nm == 'np.mean' and e.args:
                    return S(sp.simplify(tr(e.args[0]))) / S(sp.Integer(1))
                if nm == 'np.multiply':
                    return tr(e.args[0]) * tr(e.args[1])
                if nm == 'np.power':
                    return tr(e.args[0]) ** tr(e.args[1])
                if nm == 'np.where':
                    return tr(e.args[1])     # defined-mobility branch
                if nm in ('np.amax', 'np.amin'):
                    return M0
                if nm == 'kwargs.get':
                    return nexp
                if nm == '_hashinShtrikmanGeneral':
                    return translate('_hashinShtrikmanGeneral', {U.params(repo.func(HP, '_hashinShtrikmanGeneral'))[i]: tr(a) for i, a in enumerate(e.args)})
            raise AnalysisError(f'not translatable: {U.src(e)[:40]}')
        res = None
        for st in U.body_without_docstring(f):
            if isinstance(st, ast.Assign) and isinstance(st.targets[0], ast.Name):
                if U.dead_callfree_store(f, st):
                    continue
                env[st.targets[0].id] = tr(st.value)
            elif isinstance(st, ast.Return):
                res = tr(st.value)
        if res is None:
            raise AnalysisError('no return')
        return res
    t_hs = sp.simplify(Fr * (M - M0) * (3 * M0) / (2 * M0 + M))
    want = {
        'wienerUpper': S(sp.simplify(Fr * M)),
        'wienerLower': 1 / S(sp.simplify(Fr / M)),
        'labyrinth': S(sp.simplify(Fr ** nexp * M)),
        '_hashinShtrikmanGeneral': M0 + S(t_hs) / (1 - S(t_hs) / (3 * M0)),
    }
    n = 0
    for fn, w in want.items():
        f = repo.func(HP, fn)
        pn = U.params(f)
        env = {pn[0]: M, pn[1]: Fr}
        if fn == '_hashinShtrikmanGeneral':
            env[pn[2]] = M0
        try:
            got = translate(fn, env)
        except (AnalysisError, KeyError) as e:
            ctx.undecided('R17.4', HP, fn, f, f'formula not translatable: {e}')
            continue
        n += 1
        ok = sp.simplify(got - w) == 0
        ctx.check(ok, 'R17.4', HP, fn, f, f'{fn} = {w} with S the sum over phases', f'{fn} computes {got} instead of {w}: (the phase sum must be taken before the non-linear combination)', construct=f'{fn}: {got}')
    ctx.floor('R17.4', n, 4)
    for fn, red in (('hashinShtrikmanUpper', 'np.amax'), ('hashinShtrikmanLower', 'np.amin')):
        f = repo.func(HP, fn)
        ok = any(U.call_name(c) == red and U.kwarg(c, 'axis') is not None for c in U.calls(f)) and any(U.call_name(c) == '_hashinShtrikmanGeneral' for c in U.calls(f))
        ctx.check(ok, 'R17.4', HP, fn, f, f'{fn} uses the {"largest" if red.endswith("amax") else "smallest"} phase mobility as reference', f'{fn} does not use {red} over the phase axis as reference mobility')


def r176(repo, ctx):
    """every homogenized mobility that is returned went through the configured post-processing and averaging rule"""
    from .. import cfg as C
    fn = 'computeHomogenizationFunction'
    f = repo.func(HP, fn)
    rets = [r for r in ast.walk(f) if isinstance(r, ast.Return)]
    if len(rets) != 1 or not isinstance(rets[0].value, ast.Tuple) or not rets[0].value.elts:
        ctx.undecided('R17.6', HP, fn, f, 'expected one return of (mobility, chemical potential)')
        return
    names = [n.id for n in ast.walk(rets[0].value.elts[0]) if isinstance(n, ast.Name) and n.id != 'np']
    if len(names) != 1:
        ctx.undecided('R17.6', HP, fn, rets[0], 'returned mobility array not identified')
        return
    R = names[0]
    g = C.build(f)

    def gen(node, label):
        a = node.ast
        out = set()
        if node.kind == 'stmt' and isinstance(a, (ast.Assign, ast.Expr)):
            for c in U.calls(a):
                if U.call_attr(c) == 'postProcessFunction':
                    out.add('post')
        if node.kind == 'for' and label == 'iter':
            out.add('!reset')
        return out
    # facts must hold within one iteration: the loop header kills them
    def gen2(node, label):
        return gen(node, label) - {'!reset'}
    IN = C.must_forward(g, gen2)
    stores = []
    for node in g.nodes:
        a = node.ast
        if node.kind == 'stmt' and isinstance(a, (ast.Assign, ast.AugAssign)):
            for t in U.flat_targets(a):
                if isinstance(t, ast.Subscript) and isinstance(t.value, ast.Name) and t.value.id == R:
                    stores.append((node, a))
    defs = single_defs(f)
    n = 0
    for node, a in stores:
        n += 1
        v = inline(a.value, {k: v_ for k, v_ in defs.items() if k not in U.params(f)}) if isinstance(a, ast.Assign) else None
        is_rule = isinstance(v, ast.Call) and U.call_attr(v) == 'homogenizationFunction'
        # the post-processing of THIS point: the call must be on every path from the loop header to the store
        loop = next((l for l in ast.walk(f) if isinstance(l, (ast.For, ast.While)) and any(x is a for x in ast.walk(l))), None)
        post_ok = False
        if loop is not None:
            gl = C.build(loop.body, region=True)
            INl = C.must_forward(gl, gen2)
            for nd in gl.nodes:
                if nd.ast is a:
                    post_ok = INl.get(nd.id) is not None and 'post' in INl[nd.id]
        ctx.check(is_rule and post_ok, 'R17.6', HP, fn, a,
                  'the stored mobility is the configured averaging rule applied after the configured post-processing of the same point',
                  'a homogenized mobility is stored without passing through the configured post-processing and averaging rule on some path: '
                  'exclusions / defaults for phases without mobility data are bypassed there', construct=U.src(a)[:120])
    ctx.floor('R17.6', n, 1)


def check(repo, ctx, index, purity):
    ctx.explanation = EXPLANATION
    ctx.assumptions += ['np.sum over axis 0 is treated as an opaque linear operator in the formula comparison', 'ordering of the bounds is numeric and not decided',
                        'in-place completion of undefined mobilities by the post-processing functions is idempotent and not reported']
    r171(repo, ctx)
    r172_r175(repo, ctx, purity)
    r173(repo, ctx, index)
    r174(repo, ctx)
    r176(repo, ctx)
    r177(repo, ctx)
