"""C18 - coupled strength and grain-growth models stay physical and aligned (structural clauses).

R18.1 sibling sanitising: weak, strong and Orowan contributions all pass through the same (negative | non-finite) -> 0 mask
R18.2 aligned histories: updateCoupledModel appends exactly once to each strength history on every path; the host updates
      coupled models exactly once per step, after its own record was appended
R18.3 host clock: the grain-growth model is advanced by exactly the host step time[n] - time[n-1]
R18.4 combination: Taylor factor times the minimum of the three branches; arguments are not rescaled in place
R18.5 Zener drag: the drag velocity carries the same prefactor as the curvature-driven growth rate; pinned band is zero
"""
from __future__ import annotations
import ast
from .. import astutil as U
from .. import cfg as C
from ..formula import single_defs, inline, factors
from ..symfield import SymExec
from ..source import AnalysisError, AnchorMissing

ST = 'kawin/precipitation/coupling/Strength.py'
GG = 'kawin/precipitation/coupling/GrainGrowth.py'
BASE = 'kawin/precipitation/KWNBase.py'

EXPLANATION = (
    'Decides the structural clauses: every array returned by getStrengthContributions passes the same sanitising mask, the '
    'strength histories grow by exactly one entry per host step on every path, the grain-growth model is solved over exactly '
    'the host step, the combination is M*min(weak, strong, Orowan) without rescaling its arguments, and the Zener drag '
    'carries the prefactor of the growth law (so that a drag that exceeds the driving pressure freezes every grain). '
    'Positivity / monotonicity of the individual formulas and grain-volume conservation are numeric and not decided.')


def _mask_store(f, name):
    """stores `name[mask] = 0`; returns list of (stmt, covers_negative, covers_nonfinite)"""
    out = []
    for s in ast.walk(f):
        if isinstance(s, ast.Assign) and isinstance(s.targets[0], ast.Subscript) and isinstance(s.targets[0].value, ast.Name) and s.targets[0].value.id == name and U.is_const(s.value, 0):
            m = U.src(s.targets[0].slice).replace(' ', '')
            out.append((s, f'{name}<0' in m, f'~np.isfinite({name})' in m or f'np.isnan({name})' in m))
    return out


def r181(repo, ctx):
    q = 'StrengthModel.getStrengthContributions'
    f = repo.func(ST, q)
    rets = [r for r in ast.walk(f) if isinstance(r, ast.Return)]
    names = [e.id for e in rets[-1].value.elts if isinstance(e, ast.Name)][:3] if rets and isinstance(rets[-1].value, ast.Tuple) else []
    ctx.floor('R18.1', len(names), 3)
    for nm in names:
        ms = _mask_store(f, nm)
        neg = any(a for _, a, _ in ms)
        fin = any(b for _, _, b in ms)
        ctx.check(neg and fin, 'R18.1', ST, q, ms[0][0] if ms else f, f'{nm}: negative and non-finite entries are set to zero before it is returned',
                  f'{nm} is returned with {"negative" if not neg else "non-finite"} entries left in place (its siblings are cleaned of both): a negative branch wins the minimum and gives a negative precipitate strength',
                  construct=f'{nm}: ' + '; '.join(U.src(s) for s, _, _ in ms))


def r182_r183(repo, ctx, index):
    key = (ST, 'StrengthModel')
    sx = SymExec(repo, index, key)
    f = repo.func(ST, 'StrengthModel.updateCoupledModel')
    outs = [o for o in sx.run(f) if o.status != 'raise']
    HIST = ('rss', 'ls', 'solidStrength')
    for o in outs:
        counts = {}
        for h in HIST:
            w = o.written.get(h, [])
            counts[h] = sum(1 for t in w if 'np.append(' in t or 'np.concatenate(' in t or 'np.pad(' in t)
        ok = all(v == 1 for v in counts.values())
        ctx.check(ok, 'R18.2', ST, 'StrengthModel.updateCoupledModel', f, f'each strength history grows by exactly one entry on this path ({[c[0] + ":" + c[1] for c in o.conds]})',
                  f'the strength histories do not all grow by exactly one entry per host step: {counts}', construct=f'updateCoupledModel: {counts}')
    ctx.floor('R18.2', len(outs), 2)
    # appended values come from the host's current state
    txt = U.src(f)
    ctx.check('self.ssStrength(model, model.pData.n)' in txt, 'R18.2', ST, 'StrengthModel.updateCoupledModel', f, 'the solid-solution entry is evaluated at the host\'s current step', 'the solid-solution entry is not evaluated at the host\'s current step index')
    # host: once per step after the append
    q = 'PrecipitateBase.postProcess'
    g = repo.func(BASE, q)
    cf = C.build(g)

    def gen(node, label):
        a = node.ast
        out = set()
        if node.kind == 'stmt':
            for c in U.calls(a):
                nm = U.call_name(c)
                if nm == 'self._appendArrays':
                    out.add('append')
                if nm == 'self._updateParticleSizeDistribution':
                    out.add('psd')
        return out
    IN = C.must_forward(cf, gen)
    sites = [n for n in cf.nodes if n.kind == 'stmt' and any(U.call_name(c) == 'self.updateCoupledModels' for c in U.calls(n.ast))]
    in_loop = any(isinstance(p, (ast.For, ast.While)) and any(s.ast in list(ast.walk(p)) for s in sites) for p in ast.walk(g))
    ok = len(sites) == 1 and IN[sites[0].id] is not None and {'append', 'psd'} <= IN[sites[0].id] and not in_loop
    rets = [n for n in cf.nodes if n.kind == 'stmt' and isinstance(n.ast, ast.Return)]

    def gen2(node, label):
        return {'upd'} if node.kind == 'stmt' and any(U.call_name(c) == 'self.updateCoupledModels' for c in U.calls(node.ast)) else set()
    IN2 = C.must_forward(cf, gen2)
    ok = ok and all(IN2[r.id] is not None and 'upd' in IN2[r.id] for r in rets)
    ctx.check(ok, 'R18.2', BASE, q, sites[0].ast if sites else g, 'coupled models are updated exactly once per host step, after the host record was appended and the size distribution updated, on every path',
              'coupled models are not updated exactly once per host step after the host record was appended', construct='postProcess: updateCoupledModels')
    um = repo.func('kawin/GenericModel.py', 'GenericModel.updateCoupledModels')
    loops = [l for l in ast.walk(um) if isinstance(l, ast.For)]
    ok = len(loops) == 1 and U.chain(loops[0].iter) == ('self', 'couplingModels') and any(U.call_attr(c) == 'updateCoupledModel' and c.args and isinstance(c.args[0], ast.Name) and c.args[0].id == 'self' for c in U.calls(loops[0]))
    ctx.check(ok, 'R18.2', 'kawin/GenericModel.py', 'GenericModel.updateCoupledModels', um, 'every attached model is updated with the host as argument', 'not every attached model is updated with the host')
    # R18.3
    q = 'GrainGrowthModel.updateCoupledModel'
    f = repo.func(GG, q)
    calls = [c for c in U.calls(f) if U.call_name(c) == 'self.solve']
    ok = False
    if len(calls) == 1 and calls[0].args:
        a = calls[0].args[0]
        ok = isinstance(a, ast.BinOp) and isinstance(a.op, ast.Sub) and U.src(a.left) == 'model.pData.time[model.pData.n]' and U.src(a.right).replace(' ', '') == 'model.pData.time[model.pData.n-1]'
    ctx.check(ok, 'R18.3', GG, q, calls[0] if calls else f, 'the grain-growth model is solved over exactly the host step time[n] - time[n-1]',
              'the grain-growth model is not advanced by exactly the host step: its clock drifts from the host clock', construct=U.src(calls[0]) if calls else 'no solve call')
    # ... on every path: a host step on which the solve is skipped leaves the grain-growth clock behind the host clock
    g_ = C.build(f)

    def gen_(node, label):
        if node.kind == 'stmt' and any(U.call_name(c_) == 'self.solve' for c_ in U.calls(node.ast)):
            return {'solved'}
        return set()
    IN_ = C.must_forward(g_, gen_)
    exits_ = [n_ for n_ in g_.nodes if n_.kind == 'exit']
    skipped = []
    for ex in exits_:
        for pid_, lab_ in ex.pred:
            pn_ = g_.nodes[pid_] if isinstance(g_.nodes, list) else None
            if pn_ is None or lab_ == 'raise' or (pn_.kind == 'stmt' and isinstance(pn_.ast, ast.Raise)):
                continue
            facts = set(IN_.get(pid_) or set()) | gen_(pn_, lab_)
            if 'solved' not in facts:
                skipped.append(pn_)
    ctx.check(bool(exits_) and not skipped, 'R18.3', GG, q, skipped[0].ast if skipped and skipped[0].ast is not None else f,
              'every path through updateCoupledModel advances the grain-growth model (solve is called before every normal exit)',
              'updateCoupledModel can return without advancing the grain-growth model: on such host steps its clock falls behind the host clock',
              construct='updateCoupledModel: solve on every path')
    pp = repo.func(GG, 'GrainGrowthModel.postProcess')
    ap = [s for s in ast.walk(pp) if isinstance(s, ast.Assign) and U.chain(s.targets[0]) == ('self', 'time')]
    ok = len(ap) == 1 and U.src(ap[0].value).replace(' ', '') == f'np.append(self.time,{U.params(pp)[1]})'
    ctx.check(ok, 'R18.3', GG, 'GrainGrowthModel.postProcess', ap[0] if ap else pp, 'the grain-growth clock records the time given by the solver once per step', 'the grain-growth clock is not appended once per step with the solver time')
    gx = repo.func(GG, 'GrainGrowthModel.getCurrentX')
    ok = any(isinstance(r.value, ast.Tuple) and U.src(r.value.elts[0]).replace(' ', '') == 'self.time[-1]' for r in ast.walk(gx) if isinstance(r, ast.Return))
    ctx.check(ok, 'R18.3', GG, 'GrainGrowthModel.getCurrentX', gx, 'each solve starts from the last recorded grain-growth time', 'a solve does not start from the last recorded time')


def r184(repo, ctx, purity):
    q = 'StrengthModel.combineStrengthContributions'
    f = repo.func(ST, q)
    defs = single_defs(f)
    pn = U.params(f)
    oro = pn[3]
    rets = [r for r in ast.walk(f) if isinstance(r, ast.Return)]
    n = 0
    for r in rets:
        v = r.value.elts[0] if isinstance(r.value, ast.Tuple) else r.value
        num, den, sg = factors(inline(v, defs))
        ok = False
        if not den and sg == 1 and len(num) == 2 and any(U.chain(x) == ('self', 'M') for x in num):
            other = [x for x in num if U.chain(x) != ('self', 'M')][0]
            if isinstance(other, ast.Call) and U.call_name(other) in ('np.amin', 'np.min') and other.args:
                a0 = other.args[0]
                if isinstance(a0, ast.Call) and U.call_name(a0) == 'np.array':
                    a0 = a0.args[0]
                if isinstance(a0, (ast.List, ast.Tuple)) and len(a0.elts) == 3 and any(isinstance(e, ast.Name) and e.id == oro for e in a0.elts):
                    ok = True
        n += 1
        ctx.check(ok, 'R18.4', ST, q, r, 'precipitate strength = Taylor factor * min(weak, strong, Orowan)', f'precipitate strength is not M * min(weak, strong, Orowan): {U.src(v)[:80]}', construct=U.src(v)[:100])
    ctx.floor('R18.4', n, 2)
    for p in pn[1:4]:
        i = purity.param_index(f, p)
        sites, _ = purity.analyse(ST, q, f, i)
        bad = [s for s in sites if s.kind.startswith('augassign') or s.kind in ('out=', 'np-inplace', 'inplace-method')]
        bad += [s for s in sites if s.kind == 'subscript-store' and not U.is_const(getattr(s.node, 'value', None), 0)]
        if bad:
            for s in bad[:1]:
                ctx.violation('R18.4', s.path, s.qual, s.node, f'{q.split(".")[1]} rescales its {p} argument in place ({s.kind}): combining the same contribution arrays a second time gives a different strength',
                              construct=U.src(s.node)[:100])
        else:
            ctx.ok('R18.4', ST, q, f, f'{p} is only sanitised (non-finite -> 0, idempotent), never rescaled in place', construct=f'{q}({p})')


def r185(repo, ctx):
    g = repo.func(GG, 'GrainGrowthModel.grainGrowth')
    c = repo.func(GG, 'GrainGrowthModel.constrainedGrowth')
    rets = [r for r in ast.walk(g) if isinstance(r, ast.Return)]
    num, den, sg = factors(inline(rets[0].value, single_defs(g)))
    pref = sorted(U.src(x) for x in num if not (isinstance(x, ast.BinOp) and isinstance(x.op, ast.Sub)))
    shape = [x for x in num if isinstance(x, ast.BinOp) and isinstance(x.op, ast.Sub)]
    ok = len(shape) == 1 and not den and '1 / self.Rcr(' in U.src(shape[0].left) and U.src(shape[0].right) == '1 / self.pbm.PSDbounds'
    ctx.check(ok and pref == ['self.M', 'self.alpha', 'self.gbe'], 'R18.5', GG, 'GrainGrowthModel.grainGrowth', rets[0], 'growth law = alpha*M*gbe*(1/Rcr - 1/R)', f'growth law is not alpha*M*gbe*(1/Rcr - 1/R): prefactor {pref}')
    defs = single_defs(c)
    pn = U.params(c)
    gr, z = pn[1], pn[2]
    # result = zeros; result[E1 > 0] = E1[E1 > 0]; result[E2 < 0] = E2[E2 < 0] with E1 = rate - alpha*M*gbe*z, E2 = rate + alpha*M*gbe*z
    # (the band expressions are resolved through the locals that name them, whatever they are called)
    rets_c = [r for r in ast.walk(c) if isinstance(r, ast.Return)]
    bands, clean, ok_init, nstores = {}, True, False, 0
    if len(rets_c) == 1 and isinstance(rets_c[0].value, ast.Name):
        R = rets_c[0].value.id
        init = [s_ for s_ in ast.walk(c) if isinstance(s_, ast.Assign) and any(isinstance(t, ast.Name) and t.id == R for t in s_.targets)]
        ok_init = len(init) == 1 and isinstance(init[0].value, ast.Call) and U.call_name(init[0].value) in ('np.zeros', 'np.zeros_like')
        stores = [s_ for s_ in ast.walk(c) if isinstance(s_, (ast.Assign, ast.AugAssign))
                  and any(isinstance(t, ast.Subscript) and isinstance(t.value, ast.Name) and t.value.id == R for t in U.flat_targets(s_))]
        nstores = len(stores)
        dd = {k: v for k, v in defs.items() if k != R}
        for s_ in stores:
            if not isinstance(s_, ast.Assign) or len(s_.targets) != 1:
                clean = False
                continue
            m = inline(s_.targets[0].slice, dd)
            v = inline(s_.value, dd)
            if not (isinstance(m, ast.Compare) and len(m.ops) == 1 and U.is_const(m.comparators[0], 0) and isinstance(m.ops[0], (ast.Gt, ast.Lt))
                    and isinstance(v, ast.Subscript) and U.dump(v.value) == U.dump(m.left) and U.dump(inline(v.slice, dd)) == U.dump(m)):
                clean = False
                continue
            E = m.left
            if isinstance(E, ast.BinOp) and isinstance(E.op, (ast.Add, ast.Sub)) and isinstance(E.left, ast.Name) and E.left.id == gr:
                n2, d2, s2 = factors(E.right)
                bands[type(m.ops[0]).__name__] = (type(E.op).__name__, sorted(U.src(x) for x in n2 if not (isinstance(x, ast.Name) and x.id == z)), any(isinstance(x, ast.Name) and x.id == z for x in n2), d2)
            else:
                clean = False
    ok = bands.get('Lt', (None,))[0] == 'Add' and bands.get('Gt', (None,))[0] == 'Sub' and all(v[1] == pref and v[2] and not v[3] for v in bands.values()) and len(bands) == 2
    ctx.check(ok, 'R18.5', GG, 'GrainGrowthModel.constrainedGrowth', c, 'drag band = growth rate +/- alpha*M*gbe*z: the same prefactor as the growth law',
              f'the Zener drag does not carry the prefactor of the growth law ({ {k: v[1] for k, v in bands.items()} } vs {pref}): a drag that exceeds the driving pressure no longer freezes the structure',
              construct='constrainedGrowth: upper/lower')
    ok = ok_init and clean and set(bands) == {'Gt', 'Lt'} and nstores == 2 and bands.get('Gt', (None,))[0] == 'Sub' and bands.get('Lt', (None,))[0] == 'Add'
    ctx.check(ok, 'R18.5', GG, 'GrainGrowthModel.constrainedGrowth', c, 'grains grow only with the reduced rate, shrink only with the reduced rate, and are frozen inside the drag band',
              'the constrained growth rate is not (lower where lower > 0, upper where upper < 0, else 0): drag can reverse or accelerate a boundary', construct='constrainedGrowth: selection')
    gd = repo.func(GG, 'GrainGrowthModel.getdXdt')
    seq = [U.call_name(cc) for s in gd.body for cc in U.calls(s) if (U.call_name(cc) or '').startswith('self.')]
    ctx.check(seq[:2] == ['self.grainGrowth', 'self.constrainedGrowth'] and any('self._z' in U.src(cc) for cc in U.calls(gd) if U.call_name(cc) == 'self.constrainedGrowth'), 'R18.5', GG, 'GrainGrowthModel.getdXdt', gd,
              'the growth rate used in the balance is the drag-constrained one', 'the balance does not use the drag-constrained growth rate')


def check(repo, ctx, index, purity):
    ctx.explanation = EXPLANATION
    ctx.assumptions += ['positivity/monotonicity of individual strengthening formulas and grain volume conservation are numeric and not decided']
    r181(repo, ctx)
    r182_r183(repo, ctx, index)
    r184(repo, ctx, purity)
    r185(repo, ctx)
