"""C19 - stopping conditions stop the run when, and only when, they are met (the whole protocol is shape).

R19.1 attribute protocol: everything a condition reads from the model exists on PrecipitateModel / PrecipitationData
R19.2 latch: a satisfied condition is never re-evaluated or un-satisfied; the crossing time is written with the transition only
R19.3 fold: every registered condition is tested on every step; or-/and-accumulators; an empty and-set never stops the run
R19.4 each condition reads the history of its name, with the selection (phase / element) it was given; inequality table
R19.5 the solver honours the stop flag (C05 R5.2)
R19.6 the TTP calculator resets the model (and thereby every condition) before each run and registers its conditions as 'and'
"""
from __future__ import annotations
import ast
from .. import astutil as U
from .. import cfg as C
from ..symfield import SymExec, const, NONE
from ..source import AnalysisError, AnchorMissing
from . import C05

SC = 'kawin/precipitation/StoppingConditions.py'
BASE = 'kawin/precipitation/KWNBase.py'
EULER = 'kawin/precipitation/KWNEuler.py'
PP = 'kawin/precipitation/PrecipitationParameters.py'
TTP = 'kawin/precipitation/TimeTemperaturePrecipitation.py'
BASECLS = 'PrecipitationStoppingCondition'

EXPLANATION = (
    'The stopping protocol is decided on all paths: the attributes a condition reads from the host exist on the host class, '
    'a met condition stays met (symbolic execution of testCondition with the flag set writes nothing), every registered '
    'condition is polled on every step before the or/and fold, each concrete condition reads the history of its name with '
    'the phase/element it was constructed with, the solver loop ends on the returned flag, and the TTP calculator resets the '
    'model before every temperature. That the interpolated crossing time lies within the step is numeric and not decided.')


def model_attrs(repo, index):
    key = (EULER, 'PrecipitateModel')
    names = set()
    for k in index.mro(key):
        names |= {m.split('.')[0] for m in index.methods(k)}
        names |= set(index.field_writes(k, include_mro=False))
        for s in index.classes[k].body:
            if isinstance(s, ast.Assign):
                names |= U.target_names(s.targets[0])
    return names


def pdata_attrs(repo, index):
    key = (PP, 'PrecipitationData')
    names = {m.split('.')[0] for m in index.methods(key)} | set(index.field_writes(key, include_mro=False))
    for s in index.classes[key].body:
        if isinstance(s, ast.Assign) and isinstance(s.value, (ast.List, ast.Tuple)):
            names |= {e.value for e in s.value.elts if isinstance(e, ast.Constant) and isinstance(e.value, str)}
            names |= U.target_names(s.targets[0])
    return names


def r191(repo, ctx, index):
    ma, pa = model_attrs(repo, index), pdata_attrs(repo, index)
    n = 0
    for q, f in repo.functions(SC):
        pn = U.params(f)
        if 'model' not in pn:
            continue
        for node in ast.walk(f):
            if isinstance(node, ast.Attribute) and isinstance(node.ctx, ast.Load):
                c = U.chain(node)
                if not c or c[0] != 'model':
                    continue
                # only maximal chains
                n += 1
                if len(c) >= 2 and c[1] != 'pData':
                    a = c[1]
                    ctx.check(a in ma, 'R19.1', SC, q, node, f'model.{a} exists on the precipitation model', f'model.{a} does not exist on PrecipitateModel: the condition raises AttributeError the first time it is polled', construct=f'model.{a}')
                elif len(c) >= 3 and c[1] == 'pData' and c[2] != '[]':
                    a = c[2]
                    ctx.check(a in pa, 'R19.1', SC, q, node, f'model.pData.{a} exists', f'model.pData.{a} does not exist on PrecipitationData', construct=f'model.pData.{a}')
    ctx.floor('R19.1', n, 15)
    pp = repo.func(BASE, 'PrecipitateBase.postProcess')
    calls = [c for c in U.calls(pp) if U.call_attr(c) == 'testCondition']
    ctx.check(len(calls) == 1 and len(calls[0].args) == 1 and isinstance(calls[0].args[0], ast.Name) and calls[0].args[0].id == 'self', 'R19.1', BASE, 'PrecipitateBase.postProcess', calls[0] if calls else pp,
              'conditions are polled with the model itself', 'conditions are not polled with the model itself')


def r192(repo, ctx, index):
    key = (SC, BASECLS)
    sx = SymExec(repo, index, key)
    f = repo.func(SC, f'{BASECLS}.testCondition')
    outs = [o for o in sx.run(f, fields={'_isSatisfied': const(True)}) if o.status != 'raise']
    ok = bool(outs) and all(not (set(o.written) & {'_isSatisfied', '_satisfiedTime'}) for o in outs)
    ctx.check(ok, 'R19.2', SC, f'{BASECLS}.testCondition', f, 'a condition that is already met is not re-evaluated: flag and crossing time stay as they are',
              'a condition that has been met can be re-evaluated (un-met again or its crossing time overwritten)', construct='testCondition[_isSatisfied=True]')
    outs = [o for o in sx.run(f, fields={'_isSatisfied': const(False)}) if o.status != 'raise']
    bad = []
    for o in outs:
        wt = '_satisfiedTime' in o.written
        became = any(c[0] == 'T' and c[1].replace(' ', '') == 'self._isSatisfied' for c in o.conds)
        if wt and not became:
            bad.append(o)
    ctx.check(bool(outs) and not bad and any('_satisfiedTime' in o.written for o in outs), 'R19.2', SC, f'{BASECLS}.testCondition', f,
              'the crossing time is written only on the step on which the condition becomes met', 'the crossing time is written on a path on which the condition is not met', construct='testCondition[_isSatisfied=False]')
    fw = index.field_writes(key, include_mro=False)
    falses = sorted({q.split('.')[-1] for (_, q, st, _) in fw.get('_isSatisfied', []) if isinstance(st, ast.Assign) and U.is_const(st.value, False)})
    ctx.check(set(falses) <= {'__init__', 'reset'}, 'R19.2', SC, BASECLS, 0, f'the flag is cleared only by {falses}', f'the flag is cleared by {falses}', construct=f'writers of _isSatisfied=False: {falses}')
    # interpolation formula: every arithmetic expression that can flow into _satisfiedTime is the linear interpolation
    # between (time[n-1], poll(n-1)) and (time[n], poll(n)) evaluated at the target value
    import sympy as sp
    from ..formula import ToSympy
    alldefs = {}
    for s_ in ast.walk(f):
        if isinstance(s_, ast.Assign) and len(s_.targets) == 1:
            t_, v_ = s_.targets[0], s_.value
            if isinstance(t_, ast.Name):
                alldefs.setdefault(t_.id, []).append(v_)
            elif isinstance(t_, ast.Tuple) and isinstance(v_, ast.Tuple) and len(t_.elts) == len(v_.elts):
                for a_, b_ in zip(t_.elts, v_.elts):
                    if isinstance(a_, ast.Name):
                        alldefs.setdefault(a_.id, []).append(b_)

    def flows(e, depth=0):
        if isinstance(e, ast.Name) and e.id in alldefs and depth < 6:
            out = []
            for d in alldefs[e.id]:
                out += flows(d, depth + 1)
            return out
        if isinstance(e, ast.IfExp):
            return flows(e.body, depth + 1) + flows(e.orelse, depth + 1)
        return [e]
    st = [s for s in ast.walk(f) if isinstance(s, ast.Assign) and U.chain(s.targets[0]) == ('self', '_satisfiedTime')]
    cands = [c for s_ in st for c in flows(s_.value)]
    arith = [c for c in cands if isinstance(c, ast.BinOp)]
    tc, tp, vc, vp, val = sp.symbols('tc tp vc vp val')
    nsrc = 'model.pData.n'

    nsym = sp.Symbol('n')

    def idx_kind(e):
        """'cur' for an index equal to n, 'prev' for n-1 (n = model.pData.n or a local bound to it), by exact arithmetic"""
        def at(x):
            if U.src(x).replace(' ', '') == nsrc:
                return nsym
            if isinstance(x, ast.Name) and len(alldefs.get(x.id, [])) == 1:
                try:
                    return ToSympy(atoms=at, env={}).tr(alldefs[x.id][0])
                except AnalysisError:
                    return None
            return None
        try:
            v = ToSympy(atoms=at, env={}).tr(e)
        except AnalysisError:
            return None
        d = sp.simplify(v - nsym)
        return 'cur' if d == 0 else 'prev' if d == -1 else None

    def atoms(e):
        if U.chain(e) == ('self', '_value'):
            return val
        if isinstance(e, ast.Name) and len(alldefs.get(e.id, [])) == 1:
            return atoms(alldefs[e.id][0]) if not isinstance(alldefs[e.id][0], (ast.BinOp, ast.Constant)) else None
        if isinstance(e, ast.Call) and U.call_name(e) == 'self._poll' and len(e.args) == 2:
            k = idx_kind(e.args[1])
            return {'cur': vc, 'prev': vp}.get(k)
        if isinstance(e, ast.Subscript) and U.src(e.value).replace(' ', '') == 'model.pData.time':
            k = idx_kind(e.slice)
            return {'cur': tc, 'prev': tp}.get(k)
        return None
    ok = bool(arith)
    for c in arith:
        try:
            got = ToSympy(atoms=atoms, env={}).tr(c)
            if sp.simplify(got - (tp + (tc - tp) * (val - vp) / (vc - vp))) != 0:
                ok = False
        except AnalysisError:
            ok = False
    st = [s_ for s_ in st if any(isinstance(c, ast.BinOp) for c in flows(s_.value))] or st
    ctx.check(ok, 'R19.2', SC, f'{BASECLS}.testCondition', st[0] if st else f, 'crossing time = linear interpolation between the previous and the current step',
              'the reported crossing time is not the linear interpolation between the previous and the current step', construct=U.src(st[0]) if st else '')


def r193(repo, ctx):
    q = 'PrecipitateBase.postProcess'
    f = repo.func(BASE, q)
    loops = [l for l in ast.walk(f) if isinstance(l, ast.For) and '_stoppingConditions' in U.src(l.iter)]
    if len(loops) != 1:
        ctx.undecided('R19.3', BASE, q, f, 'loop over the registered conditions not found')
        return
    loop = loops[0]
    g = C.build(loop.body, region=True)

    def tr(node, st, label):
        st = set(st)
        if node.kind in ('stmt', 'test'):
            eff = C.simple_effect_node(node)
            for c in U.calls(eff) if eff is not None else []:
                if U.call_attr(c) == 'testCondition':
                    st.add('tested')
        return frozenset(st)
    at, exits = C.collect(g, frozenset(), tr)
    states = [s for v in exits.values() for s in v]
    ctx.check(bool(states) and all('tested' in s for s in states) and 'break' not in exits, 'R19.3', BASE, q, loop, 'every registered condition is tested on every step, on every path of the fold (testing is what latches a condition and records its time)',
              'a registered condition is not tested on some path of the loop (short-circuit): a condition that is met while an earlier one is not is never latched', construct='postProcess: testCondition on all paths')
    txt = U.src(f).replace(' ', '')
    defs = {}
    for s in f.body:
        if isinstance(s, ast.Assign) and isinstance(s.targets[0], ast.Name):
            defs.setdefault(s.targets[0].id, []).append(s)
    orv = andv = None
    for s in ast.walk(loop):
        if isinstance(s, ast.Assign) and isinstance(s.targets[0], ast.Name) and isinstance(s.value, ast.BoolOp):
            nm = s.targets[0].id
            if isinstance(s.value.op, ast.Or) and any(isinstance(v, ast.Name) and v.id == nm for v in s.value.values):
                orv = nm
            if isinstance(s.value.op, ast.And) and any(isinstance(v, ast.Name) and v.id == nm for v in s.value.values):
                andv = nm
    ok = orv is not None and andv is not None
    if ok:
        ok = U.is_const(defs[orv][0].value, False) and U.is_const(defs[andv][0].value, True)
    ctx.check(ok, 'R19.3', BASE, q, loop, 'or-accumulator starts False and is or-ed, and-accumulator starts True and is and-ed with isSatisfied()', 'the or/and accumulators are not initialised False/True and folded with or/and')
    # empty and-set
    ok2 = False
    for s in f.body:
        if isinstance(s, ast.If) and isinstance(s.test, ast.Compare) and U.is_const(s.test.comparators[0], 0) and isinstance(s.test.ops[0], ast.Eq):
            if any(isinstance(b, ast.Assign) and isinstance(b.targets[0], ast.Name) and b.targets[0].id == andv and U.is_const(b.value, False) for b in s.body):
                ok2 = True
    ctx.check(ok2, 'R19.3', BASE, q, f, 'with no and-conditions the and-accumulator is False (the run is not stopped at once)', 'with no and-conditions registered the run would stop at the first step')
    rets = [r for r in ast.walk(f) if isinstance(r, ast.Return)]
    ok3 = len(rets) == 1 and isinstance(rets[0].value, ast.Tuple) and isinstance(rets[0].value.elts[1], ast.Name)
    if ok3:
        sv = rets[0].value.elts[1].id
        d = [s for s in f.body if isinstance(s, ast.Assign) and isinstance(s.targets[0], ast.Name) and s.targets[0].id == sv]
        ok3 = len(d) == 1 and isinstance(d[0].value, ast.BoolOp) and isinstance(d[0].value.op, ast.Or) and sorted(v.id for v in d[0].value.values if isinstance(v, ast.Name)) == sorted([orv, andv])
    ctx.check(ok3, 'R19.3', BASE, q, rets[0] if rets else f, 'the returned stop flag is (any or-condition met) or (all and-conditions met)', 'the returned stop flag is not orCondition or andCondition')
    add = repo.func(BASE, 'PrecipitateBase.addStoppingCondition')
    t = U.src(add).replace(' ', '')
    ctx.check("self._stoppingConditions.append(condition)" in t and "ifmode=='or':self._stopConditionMode.append(True)" in t.replace('\n', '') and 'self._stopConditionMode.append(False)' in t, 'R19.3', BASE, 'PrecipitateBase.addStoppingCondition', add,
              'conditions and their modes are registered pairwise', 'conditions and their or/and modes are not registered pairwise')


def r194(repo, ctx, index):
    table = {'VolumeFractionCondition': 'volFrac', 'AverageRadiusCondition': 'Ravg', 'DrivingForceCondition': 'drivingForce',
             'NucleationRateCondition': 'nucRate', 'PrecipitateDensityCondition': 'precipitateDensity', 'CompositionCondition': 'composition'}
    n = 0
    for cls, arr in table.items():
        key = (SC, cls)
        if key not in index.classes:
            ctx.undecided('R19.4', SC, cls, 0, 'condition class not found')
            continue
        n += 1
        reads = set()
        for name in ('_getData', '_poll'):
            # the method an instance of exactly this class runs (own or inherited), with class-level literals resolved for this class
            m = index.specialised(key, name)
            if m is not None:
                for node in ast.walk(m):
                    if isinstance(node, ast.Attribute) and U.chain(node) and U.chain(node)[:2] == ('model', 'pData') and len(U.chain(node)) >= 3:
                        reads.add(U.chain(node)[2])
        ctx.check(reads == {arr}, 'R19.4', SC, cls, index.classes[key], f'{cls} monitors the {arr} history', f'{cls} reads {sorted(reads)} instead of the {arr} history', construct=f'{cls}: {sorted(reads)}')
        # the selection stored by the constructor is the one used when polling
        init = index.lookup_method(key, '__init__')[2]
        own_init = index.methods(key).get('__init__')
        sel = set()
        if own_init is not None:
            for c in U.calls(own_init):
                for kw in c.keywords:
                    if kw.arg in ('phase', 'element'):
                        sel.add('_' + kw.arg)
        poll = index.lookup_method(key, '_poll')[2]
        used = {U.chain(nd)[1] for nd in ast.walk(poll) if isinstance(nd, ast.Attribute) and U.chain(nd) and U.chain(nd)[0] == 'self' and len(U.chain(nd)) == 2}
        ctx.check(sel and sel <= used, 'R19.4', SC, cls, poll, f'the selection given to the constructor ({sorted(sel)}) is the one used to pick the monitored column',
                  f'{cls} stores its selection {sorted(sel)} but polls with {sorted(used & {"_phase", "_element"}) or "no selection"}: the condition watches another phase/element than the one requested',
                  construct=f'{cls}: selection {sorted(sel)} vs poll {sorted(used)}')
    ctx.floor('R19.4', n, 6)
    f = repo.func(SC, f'{BASECLS}._testCondition')
    # every path of _testCondition: the branch taken for GREATER_THAN returns value > threshold, the other value < threshold
    sx = SymExec(repo, index, (SC, BASECLS))
    outs = [o for o in sx.run(f) if o.status != 'raise']
    seen = set()
    ok = bool(outs)
    for o in outs:
        sense = None
        for tv, text in o.conds:
            t = text.replace(' ', '').strip('()')
            for opname, flip in (('==', False), ('!=', True)):
                if t in (f'self._condition{opname}Inequality.GREATER_THAN', f'Inequality.GREATER_THAN{opname}self._condition'):
                    sense = 'gt' if ((tv == 'T') != flip) else 'lt'
                if t in (f'self._condition{opname}Inequality.LESSER_THAN', f'Inequality.LESSER_THAN{opname}self._condition'):
                    sense = 'lt' if ((tv == 'T') != flip) else 'gt'
        rv = o.retval
        got = None
        if isinstance(rv, tuple) and rv[0] == 'cmp' and len(rv) == 4:
            if rv[3] == ('old', '_value') and 'call' in repr(rv[2]):
                got = {'Gt': 'gt', 'Lt': 'lt'}.get(rv[1])
            elif rv[2] == ('old', '_value') and 'call' in repr(rv[3]):
                got = {'Lt': 'gt', 'Gt': 'lt'}.get(rv[1])
        if sense is None or got != sense:
            ok = False
        seen.add(sense)
    ok = ok and seen == {'gt', 'lt'}
    ctx.check(ok, 'R19.4', SC, f'{BASECLS}._testCondition', f, 'GREATER_THAN tests value > threshold, LESSER_THAN tests value < threshold', 'the inequality table is wrong')
    p = repo.func(SC, f'{BASECLS}._poll')
    t = U.src(p).replace(' ', '')
    ctx.check('p=model.phaseIndex(self._phase)' in t and 'returndata[n,p]' in t, 'R19.4', SC, f'{BASECLS}._poll', p, 'per-phase conditions read column phaseIndex(phase) of their history', 'per-phase conditions do not read the column of the requested phase')


def _is_conds(e):
    c = U.chain(e)
    return bool(c) and c[-1] == 'stopConds' and c in (('self', 'stopConds'), ('stopConds',))


def _cond_loops(func):
    """loops over self.stopConds (or the constructor argument stored into it): (loop, index name | None, item name | None)"""
    out = []
    for l in ast.walk(func):
        if not isinstance(l, ast.For):
            continue
        it = l.iter
        if isinstance(it, ast.Call) and U.call_name(it) == 'range' and it.args and isinstance(it.args[-1], ast.Call) and U.call_name(it.args[-1]) == 'len' \
                and it.args[-1].args and _is_conds(it.args[-1].args[0]) and isinstance(l.target, ast.Name):
            out.append((l, l.target.id, None))
        elif _is_conds(it) and isinstance(l.target, ast.Name):
            out.append((l, None, l.target.id))
        elif isinstance(it, ast.Call) and U.call_name(it) == 'enumerate' and it.args and _is_conds(it.args[0]) \
                and isinstance(l.target, ast.Tuple) and len(l.target.elts) == 2 and all(isinstance(e, ast.Name) for e in l.target.elts):
            out.append((l, l.target.elts[0].id, l.target.elts[1].id))
    return out


def _is_item(e, idx, item):
    if item and isinstance(e, ast.Name) and e.id == item:
        return True
    return idx is not None and isinstance(e, ast.Subscript) and _is_conds(e.value) and isinstance(e.slice, ast.Name) and e.slice.id == idx


def r196(repo, ctx):
    f = repo.func(TTP, 'TTPCalculator._getStopTime')
    sq = U.seq(f)
    pos = {}
    for c in U.calls(f):
        nm = U.call_name(c)
        if nm in ('self.model.reset', 'self.model.setTemperature', 'self.model.solve'):
            pos.setdefault(nm, []).append(sq[id(c)])
    ok = all(len(pos.get(k, [])) == 1 for k in ('self.model.reset', 'self.model.setTemperature', 'self.model.solve')) \
        and pos['self.model.reset'][0] < pos['self.model.setTemperature'][0] < pos['self.model.solve'][0]
    ctx.check(ok, 'R19.6', TTP, 'TTPCalculator._getStopTime', f, 'the model is reset, the temperature set and then solved, in this order, for every temperature', 'the model is not reset before each temperature run')
    init = repo.func(TTP, 'TTPCalculator.__init__')
    clear = [c for c in U.calls(init) if U.call_name(c) == 'self.model.clearStoppingConditions']
    reg = False
    for l, idx, item in _cond_loops(init):
        for c in U.calls(l):
            if U.call_name(c) == 'self.model.addStoppingCondition' and c.args and _is_item(c.args[0], idx, item):
                mode = c.args[1] if len(c.args) >= 2 else U.kwarg(c, 'mode')
                if mode is not None and U.is_const(mode, 'and') and clear and U.seq(init)[id(clear[0])] < U.seq(init)[id(c)]:
                    reg = True
    ctx.check(bool(clear) and reg, 'R19.6', TTP, 'TTPCalculator.__init__', init, 'the calculator registers its conditions (and only those) as and-conditions', 'the calculator does not register its conditions as and-conditions')
    r = repo.func(BASE, 'PrecipitateBase.reset')
    loops = [l for l in ast.walk(r) if isinstance(l, ast.For) and U.chain(l.iter) == ('self', '_stoppingConditions')]
    ok = len(loops) == 1 and any(U.call_attr(c) == 'reset' for c in U.calls(loops[0]))
    ctx.check(ok, 'R19.6', BASE, 'PrecipitateBase.reset', r, 'resetting the model resets every registered condition', 'resetting the model does not reset the registered conditions')
    # the reported vector: element j is the crossing time of condition j, and the vector is what is returned
    rets = [x for x in ast.walk(f) if isinstance(x, ast.Return) and isinstance(x.value, ast.Name)]
    good = False
    for l, idx, item in _cond_loops(f):
        if idx is None:
            continue
        for st in ast.walk(l):
            if isinstance(st, ast.Assign) and isinstance(st.targets[0], ast.Subscript) and isinstance(st.targets[0].value, ast.Name) \
                    and isinstance(st.targets[0].slice, ast.Name) and st.targets[0].slice.id == idx:
                v = st.value
                if isinstance(v, ast.Call) and isinstance(v.func, ast.Attribute) and v.func.attr == 'satisfiedTime' and not v.args and _is_item(v.func.value, idx, item) \
                        and any(x.value.id == st.targets[0].value.id for x in rets):
                    good = True
    ctx.check(good, 'R19.6', TTP, 'TTPCalculator._getStopTime', f, 'the reported times are the crossing times of the conditions', 'the reported times are not the crossing times of the conditions')


def check(repo, ctx, index, purity):
    ctx.explanation = EXPLANATION
    ctx.assumptions += ['the interpolated crossing time lying inside the step is numeric and not decided']
    r191(repo, ctx, index)
    r192(repo, ctx, index)
    r193(repo, ctx)
    r194(repo, ctx, index)
    sub = type(ctx)(ctx.prop, ctx.repo, ctx.tier, ctx.seed)
    lo, hi, solve, names, init_nodes, fr = C05.bounds_roles(repo, sub)
    if lo and hi:
        C05.r52_loop(repo, sub, lo, hi, solve, names, init_nodes)
    for fnd in sub.findings:
        fnd.rule = 'R19.5/' + fnd.rule
        ctx.findings.append(fnd)
    r196(repo, ctx)
