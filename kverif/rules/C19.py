"""C19 - stopping conditions stop the run when, and only when, they are met (the whole protocol is shape).

R19.1 attribute protocol: everything a condition reads from the model exists on PrecipitateModel / PrecipitationData
R19.2 latch: a satisfied condition is never re-evaluated or un-satisfied; the crossing time is written with the transition only
R19.8 no path replaces the interpolated time under a tolerance (isclose) test of the two values
R19.7 the interpolated crossing time is stored only when the condition was not met at the previous step (otherwise the time of that step)
R19.3 fold: every registered condition is tested on every step; or-/and-accumulators; an empty and-set never stops the run
R19.4 each condition reads the history of its name, with the selection (phase / element) it was given; inequality table
R19.5 the solver honours the stop flag (C05 R5.2)
R19.6 the TTP calculator resets the model (and thereby every condition) before each run and registers its conditions as 'and'
"""
from __future__ import annotations
import ast
from .. import astutil as U
from .. import cfg as C
from ..symfield import SymExec, const, NONE
from ..source import AnalysisError, AnchorMissing
from . import C05

SC = 'kawin/precipitation/StoppingConditions.py'
BASE = 'kawin/precipitation/KWNBase.py'
EULER = 'kawin/precipitation/KWNEuler.py'
PP = 'kawin/precipitation/PrecipitationParameters.py'
TTP = 'kawin/precipitation/TimeTemperaturePrecipitation.py'
BASECLS = 'PrecipitationStoppingCondition'

EXPLANATION = (
    'The stopping protocol is decided on all paths: the attributes a condition reads from the host exist on the host class, '
    'a met condition stays met (symbolic execution of testCondition with the flag set writes nothing), every registered '
    'condition is polled on every step before the or/and fold, each concrete condition reads the history of its name with '
    'the phase/element it was constructed with, the solver loop ends on the returned flag, and the TTP calculator resets the '
    'model before every temperature. That the interpolated crossing time lies within the step is numeric and not decided.')


def model_attrs(repo, index):
    key = (EULER, 'PrecipitateModel')
    names = set()
    for k in index.mro(key):
        names |= {m.split('.')[0] for m in index.methods(k)}
        names |= set(index.field_writes(k, include_mro=False))
        for s in index.classes[k].body:
            if isinstance(s, ast.Assign):
                names |= U.target_names(s.targets[0])
    return names


def pdata_attrs(repo, index):
    key = (PP, 'PrecipitationData')
    names = {m.split('.')[0] for m in index.methods(key)} | set(index.field_writes(key, include_mro=False))
    for s in index.classes[key].body:
        if isinstance(s, ast.Assign) and isinstance(s.value, (ast.List, ast.Tuple)):
            names |= {e.value for e in s.value.elts if isinstance(e, ast.Constant) and isinstance(e.value, str)}
            names |= U.target_names(s.targets[0])
    return names


def r191(repo, ctx, index):
    ma, pa = model_attrs(repo, index), pdata_attrs(repo, index)
    n = 0
    for q, f in repo.functions(SC):
        pn = U.params(f)
        if 'model' not in pn:
            continue
        for node in ast.walk(f):
            if isinstance(node, ast.Attribute) and isinstance(node.ctx, ast.Load):
                c = U.chain(node)
                if not c or c[0] != 'model':
                    continue
                # only maximal chains
                n += 1
                if len(c) >= 2 and c[1] != 'pData':
                    a = c[1]
                    ctx.check(a in ma, 'R19.1', SC, q, node, f'model.{a} exists on the precipitation model', f'model.{a} does not exist on PrecipitateModel: the condition raises AttributeError the first time it is polled', construct=f'model.{a}')
                elif len(c) >= 3 and c[1] == 'pData' and c[2] != '[]':
                    a = c[2]
                    ctx.check(a in pa, 'R19.1', SC, q, node, f'model.pData.{a} exists', f'model.pData.{a} does not exist on PrecipitationData', construct=f'model.pData.{a}')
    ctx.floor('R19.1', n, 15)
    pp = repo.func(BASE, 'PrecipitateBase.postProcess')
    calls = [c for c in U.calls(pp) if U.call_attr(c) == 'testCondition']
    ctx.check(len(calls) == 1 and len(calls[0].args) == 1 and isinstance(calls[0].args[0], ast.Name) and calls[0].args[0].id == 'self', 'R19.1', BASE, 'PrecipitateBase.postProcess', calls[0] if calls else pp,
              'conditions are polled with the model itself', 'conditions are not polled with the model itself')


def r192(repo, ctx, index):
    key = (SC, BASECLS)
    sx = SymExec(repo, index, key)
    f = repo.func(SC, f'{BASECLS}.testCondition')
    outs = [o for o in sx.run(f, fields={'_isSatisfied': const(True)}) if o.status != 'raise']
    ok = bool(outs) and all(not (set(o.written) & {'_isSatisfied', '_satisfiedTime'}) for o in outs)
    ctx.check(ok, 'R19.2', SC, f'{BASECLS}.testCondition', f, 'a condition that is already met is not re-evaluated: flag and crossing time stay as they are',
              'a condition that has been met can be re-evaluated (un-met again or its crossing time overwritten)', construct='testCondition[_isSatisfied=True]')
    outs = [o for o in sx.run(f, fields={'_isSatisfied': const(False)}) if o.status != 'raise']
    bad = []
    for o in outs:
        wt = '_satisfiedTime' in o.written
        became = any(c[0] == 'T' and c[1].replace(' ', '') == 'self._isSatisfied' for c in o.conds)
        if wt and not became:
            bad.append(o)
    ctx.check(bool(outs) and not bad and any('_satisfiedTime' in o.written for o in outs), 'R19.2', SC, f'{BASECLS}.testCondition', f,
              'the crossing time is written only on the step on which the condition becomes met', 'the crossing time is written on a path on which the condition is not met', construct='testCondition[_isSatisfied=False]')
    fw = index.field_writes(key, include_mro=False)
    falses = sorted({q.split('.')[-1] for (_, q, st, _) in fw.get('_isSatisfied', []) if isinstance(st, ast.Assign) and U.is_const(st.value, False)})
    ctx.check(set(falses) <= {'__init__', 'reset'}, 'R19.2', SC, BASECLS, 0, f'the flag is cleared only by {falses}', f'the flag is cleared by {falses}', construct=f'writers of _isSatisfied=False: {falses}')
    # interpolation formula: every arithmetic expression that can flow into _satisfiedTime is the linear interpolation
    # between (time[n-1], poll(n-1)) and (time[n], poll(n)) evaluated at the target value
    import sympy as sp
    from ..formula import ToSympy
    alldefs = {}
    for s_ in ast.walk(f):
        if isinstance(s_, ast.Assign) and len(s_.targets) == 1:
            t_, v_ = s_.targets[0], s_.value
            if isinstance(t_, ast.Name):
                alldefs.setdefault(t_.id, []).append(v_)
            elif isinstance(t_, ast.Tuple) and isinstance(v_, ast.Tuple) and len(t_.elts) == len(v_.elts):
                for a_, b_ in zip(t_.elts, v_.elts):
                    if isinstance(a_, ast.Name):
                        alldefs.setdefault(a_.id, []).append(b_)

    def flows(e, depth=0):
        if isinstance(e, ast.Name) and e.id in alldefs and depth < 6:
            out = []
            for d in alldefs[e.id]:
                out += flows(d, depth + 1)
            return out
        if isinstance(e, ast.IfExp):
            return flows(e.body, depth + 1) + flows(e.orelse, depth + 1)
        return [e]
    st = [s for s in ast.walk(f) if isinstance(s, ast.Assign) and U.chain(s.targets[0]) == ('self', '_satisfiedTime')]
    cands = [c for s_ in st for c in flows(s_.value)]
    arith = [c for c in cands if isinstance(c, ast.BinOp)]
    tc, tp, vc, vp, val = sp.symbols('tc tp vc vp val')
    nsrc = 'model.pData.n'

    nsym = sp.Symbol('n')

    def idx_kind(e):
        """'cur' for an index equal to n, 'prev' for n-1 (n = model.pData.n or a local bound to it), by exact arithmetic"""
        def at(x):
            if U.src(x).replace(' ', '') == nsrc:
                return nsym
            if isinstance(x, ast.Name) and len(alldefs.get(x.id, [])) == 1:
                try:
                    return ToSympy(atoms=at, env={}).tr(alldefs[x.id][0])
                except AnalysisError:
                    return None
            return None
        try:
            v = ToSympy(atoms=at, env={}).tr(e)
        except AnalysisError:
            return None
        d = sp.simplify(v - nsym)
        return 'cur' if d == 0 else 'prev' if d == -1 else None

    def atoms(e):
        if U.chain(e) == ('self', '_value'):
            return val
        if isinstance(e, ast.Name) and len(alldefs.get(e.id, [])) == 1:
            return atoms(alldefs[e.id][0]) if not isinstance(alldefs[e.id][0], (ast.BinOp, ast.Constant)) else None
        if isinstance(e, ast.Call) and U.call_name(e) == 'self._poll' and len(e.args) == 2:
            k = idx_kind(e.args[1])
            return {'cur': vc, 'prev': vp}.get(k)
        if isinstance(e, ast.Subscript) and U.src(e.value).replace(' ', '') == 'model.pData.time':
            k = idx_kind(e.slice)
            return {'cur': tc, 'prev': tp}.get(k)
        return None
    ok = bool(arith)
    for c in arith:
        try:
            got = ToSympy(atoms=atoms, env={}).tr(c)
            if sp.simplify(got - (tp + (tc - tp) * (val - vp) / (vc - vp))) != 0:
                ok = False
        except AnalysisError:
            ok = False
    st = [s_ for s_ in st if any(isinstance(c, ast.BinOp) for c in flows(s_.value))] or st
    ctx.check(ok, 'R19.2', SC, f'{BASECLS}.testCondition', st[0] if st else f, 'crossing time = linear interpolation between the previous and the current step',
              'the reported crossing time is not the linear interpolation between the previous and the current step', construct=U.src(st[0]) if st else '')
    # R19.7: the interpolation is only an interpolation when the threshold lies between the two values: on every path that stores
    # the interpolated time, the condition was tested at the previous step and found not met (otherwise the formula extrapolates
    # outside the step - a condition already true at the initial state, or registered mid-run)
    n_interp, unguarded = 0, []
    for o in outs:
        v = o.fields.get('_satisfiedTime')
        if '_satisfiedTime' not in o.written or not (isinstance(v, tuple) and v and v[0] == 'op'):
            continue
        n_interp += 1
        guarded = False
        for tv, text in o.conds:
            t_ = text.replace(' ', '')
            neg = False
            while t_.startswith('not'):
                t_, neg = t_[3:].strip('()'), not neg
            prev_test = '_testCondition(' in t_ and ('n-1' in t_ or '-1)' in t_)
            if prev_test and ((tv == 'F') != neg):
                guarded = True
        if not guarded:
            unguarded.append(o)
    if n_interp > 0 and unguarded:
        # the test at the previous step may be written out (helper inlined): a comparison of the PREVIOUS polled value with the
        # threshold somewhere in the function.  Which paths it guards is then not read off the path conditions: undecided, not a violation
        def prev_value(e, depth=0):
            if isinstance(e, ast.Name) and len(alldefs.get(e.id, [])) == 1 and depth < 4:
                return prev_value(alldefs[e.id][0], depth + 1)
            return isinstance(e, ast.Call) and U.call_name(e) == 'self._poll' and len(e.args) == 2 and idx_kind(e.args[1]) == 'prev'
        written_out = any(isinstance(c_, ast.Compare) and len(c_.ops) == 1 and (
            (prev_value(c_.left) and U.chain(c_.comparators[0]) == ('self', '_value')) or (prev_value(c_.comparators[0]) and U.chain(c_.left) == ('self', '_value')))
            for c_ in ast.walk(f))
        if written_out:
            ctx.undecided('R19.7', SC, f'{BASECLS}.testCondition', st[0] if st else f, 'the previous polled value is compared with the threshold inside testCondition (not through _testCondition(model, n-1)): '
                          'which stores of the interpolated time that comparison guards is not decided')
            unguarded = []
    ctx.check(n_interp > 0 and not unguarded, 'R19.7', SC, f'{BASECLS}.testCondition', st[0] if st else f,
              f'on all {n_interp} path(s) that store the interpolated time the condition was tested at the previous step and was not met there: the threshold lies between the two values',
              'the interpolated time is stored without testing that the condition was not yet met at the previous step: when it already was (true at the initial state, registered mid-run) '
              'the formula extrapolates and the reported time falls outside the step', construct='testCondition: interpolation guarded by the previous step')


    # R19.8 (converse): a newly met condition whose previous value was on the other side of the threshold reports the interpolated
    # time; a path that stores another time under an *inexact* flatness test (np.isclose & co: absolute tolerances far above
    # the magnitude of radii or compositions) replaces the interpolation on ordinary steps
    inexact = []
    for o in outs:
        v = o.fields.get('_satisfiedTime')
        if '_satisfiedTime' not in o.written or (isinstance(v, tuple) and v and v[0] == 'op'):
            continue
        for tv, text in o.conds:
            if tv == 'T' and any(k in text for k in ('np.isclose(', 'math.isclose(', 'np.allclose(', 'isclose(')):
                inexact.append(text)
    ctx.check(not inexact, 'R19.8', SC, f'{BASECLS}.testCondition', st[0] if st else f,
              'no path replaces the interpolated crossing time under a tolerance test of the two values',
              f'under the tolerance test {inexact[0][:80] if inexact else ""} the end (or start) of the step is reported instead of the interpolated crossing time: with the default absolute '
              'tolerance this holds on every ordinary step for quantities such as radii (1e-9 m), so the reported time is no longer the linear interpolation',
              construct='testCondition: interpolation replaced under a tolerance test')


def _registry_mentions(node):
    return any(isinstance(n, ast.Attribute) and n.attr in ('_stoppingConditions', '_stopConditionMode') for n in ast.walk(node))


def _fold_slice(f):
    """(statements before the return, expression of the stop flag) of postProcess; statements that are bare calls not touching
    the registry are other duties of postProcess and are left out"""
    body = U.body_without_docstring(f)
    if not body or not isinstance(body[-1], ast.Return) or any(isinstance(n, ast.Return) for s in body[:-1] for n in ast.walk(s)):
        return None, None
    rv = body[-1].value
    if not (isinstance(rv, ast.Tuple) and len(rv.elts) == 2):
        return None, None
    stmts = [s for s in body[:-1] if not (isinstance(s, ast.Expr) and not _registry_mentions(s))]
    return stmts, rv.elts[1]


def _fold_env(ME, items, modes, sat, tested):
    toks = [ME.Token(f'c{i}', methods={'isSatisfied': (lambda i=i: sat[i]), 'testCondition': (lambda *_a, i=i: tested.add(i))}) for i in range(len(items))]
    return {'self': ME.Token('self'), 'self._stoppingConditions': toks, 'self._stopConditionMode': list(modes)}


def r193(repo, ctx):
    """The stop flag is (some or-condition met) or (there is an and-condition and all of them are met), and every condition is
    tested on every step.  Decided on the fold itself: the loop body is a transfer function over a finite domain (flags,
    counters compared with small constants); its reachable states are tabulated in product with the specification automaton
    (O, A, H) - which covers registries of every length.  When the fold is not a single loop the same table is built for all
    registries of up to three conditions."""
    from .. import minieval as ME
    import itertools
    q = 'PrecipitateBase.postProcess'
    f = repo.func(BASE, q)
    stmts, stop_e = _fold_slice(f)
    if stmts is None:
        ctx.undecided('R19.3', BASE, q, f, 'postProcess does not end in a single `return <state>, <stop flag>`')
        return
    if not any(_registry_mentions(s) for s in stmts):
        ctx.violation('R19.3', BASE, q, f, 'the registered stopping conditions are not consulted when the stop flag is computed', construct='postProcess: fold over the registry')
        return
    loops = [i for i, s in enumerate(stmts) if isinstance(s, ast.For) and _registry_mentions(s)]
    others = [s for i, s in enumerate(stmts) if i not in loops and _registry_mentions(s)]
    problems, mode_used = [], None
    decided = False
    if len(loops) == 1 and not others and not stmts[loops[0]].orelse:
        k = loops[0]
        loop = stmts[k]
        try:
            ev0 = ME.Evaluator({'self': ME.Token('self')})
            ev0.run(stmts[:k])
            start = {n: v for n, v in ev0.env.items() if n != 'self'}
            if any(isinstance(v, (list, dict, set)) for v in start.values()):
                raise ME.Unknown('the fold accumulates into a container: its state space is not finite')
            seen = {}
            work = [(tuple(sorted(start.items(), key=lambda kv: kv[0])), (False, True, False), ())]
            while work:
                key, spec, hist = work.pop()
                if (key, spec) in seen:
                    continue
                seen[(key, spec)] = hist
                env = dict(key)
                # the flag delivered from this state
                evp = ME.Evaluator(dict(env, self=ME.Token('self')))
                evp.run(stmts[k + 1:])
                got = bool(evp.ev(stop_e))
                O, A, H = spec
                if got != (O or (H and A)):
                    problems.append((hist, got, O or (H and A)))
                    continue
                for mode, sat in itertools.product((True, False), repeat=2):
                    tested = set()
                    e2 = _fold_env(ME, [0], [mode], [sat], tested)
                    e2.update(env)
                    ev = ME.Evaluator(e2)
                    items = ev._iter(ev.ev(loop.iter))
                    if len(items) != 1:
                        raise ME.Unknown('the loop does not visit each registered condition once')
                    ev.bind(loop.target, items[0])
                    broke = False
                    try:
                        ev.run(loop.body)
                    except ME._Continue:
                        pass
                    except ME._Break:
                        broke = True
                    h2 = hist + ((('or' if mode else 'and'), sat),)
                    if broke or 0 not in tested:
                        problems.append((h2, 'untested', None))
                        continue
                    tnames = {n.id for n in ast.walk(loop.target) if isinstance(n, ast.Name)}
                    nxt = {n: v for n, v in ev.env.items() if n not in ('self', 'self._stoppingConditions', 'self._stopConditionMode') and n not in tnames
                           and not isinstance(v, (ME.Token, list))}
                    spec2 = (O or (mode and sat), A and (sat if not mode else True), H or not mode)
                    work.append((tuple(sorted(nxt.items(), key=lambda kv: kv[0])), spec2, h2))
            decided = True
            mode_used = f'product of the fold with the specification automaton: {len(seen)} reachable state pairs, registries of every length'
        except ME.Unknown as e:
            problems, decided = [], False
            why = str(e)
        except ME.Return:
            problems, decided = [], False
    if not decided:
        # bounded table: every registry of up to three conditions, every mode vector, every outcome vector
        try:
            n_cases = 0
            for n in range(0, 4):
                for modes in itertools.product((True, False), repeat=n):
                    for sat in itertools.product((True, False), repeat=n):
                        tested = set()
                        ev = ME.Evaluator(_fold_env(ME, list(range(n)), modes, sat, tested))
                        ev.run(stmts)
                        got = bool(ev.ev(stop_e))
                        ors = [s_ for m_, s_ in zip(modes, sat) if m_]
                        ands = [s_ for m_, s_ in zip(modes, sat) if not m_]
                        want = any(ors) or (bool(ands) and all(ands))
                        hist = tuple((('or' if m_ else 'and'), s_) for m_, s_ in zip(modes, sat))
                        n_cases += 1
                        if tested != set(range(n)):
                            problems.append((hist, 'untested', None))
                        elif got != want:
                            problems.append((hist, got, want))
            decided = True
            mode_used = f'table of all {n_cases} registries of up to three conditions (modes x outcomes)'
        except (ME.Unknown, ME.Return, ME._Break, ME._Continue) as e:
            ctx.undecided('R19.3', BASE, q, f, f'the fold over the stopping conditions uses a construct outside the tabulated fragment ({e})')
            return
    untested = [p for p in problems if p[1] == 'untested']
    wrong = [p for p in problems if p[1] != 'untested']

    def show_h(h):
        return '[' + ', '.join(f'{m}:{"met" if s_ else "unmet"}' for m, s_ in h) + ']'
    ctx.check(not untested, 'R19.3', BASE, q, f, f'every registered condition is tested on every step ({mode_used}); testing is what latches a condition and records its time',
              f'a registered condition is not tested on some step (short-circuit / early exit), e.g. for the registry {show_h(untested[0][0]) if untested else ""}: a condition met while another is not is never latched',
              construct='postProcess: testCondition on all paths')
    ctx.check(not wrong, 'R19.3', BASE, q, f, f'stop flag = (any or-condition met) or (at least one and-condition and all of them met) ({mode_used})',
              (f'for the registry {show_h(wrong[0][0])} the stop flag is {wrong[0][1]} but (any or met) or (all and met, at least one) is {wrong[0][2]}' if wrong else ''),
              construct='postProcess: stop flag of the or/and fold')
    # registration: one mode per condition, True exactly for 'or'
    add = repo.func(BASE, 'PrecipitateBase.addStoppingCondition')
    an = U.params(add)
    bad = None
    try:
        for mode in ('or', 'and'):
            cond = ME.Token('condition')
            env = {'self': ME.Token('self'), 'self._stoppingConditions': [], 'self._stopConditionMode': [], an[1]: cond}
            if len(an) > 2:
                env[an[2]] = mode
            ev = ME.Evaluator(env)
            try:
                ev.run(U.body_without_docstring(add))
            except ME.Return:
                pass
            cs, ms = ev.env['self._stoppingConditions'], ev.env['self._stopConditionMode']
            if not (len(cs) == 1 and cs[0] is cond and len(ms) == 1 and ms[0] is (mode == 'or')):
                bad = f"mode '{mode}' registers conditions {cs} with modes {ms}"
        # the default mode
        dflt = add.args.defaults[-1] if add.args.defaults else None
        ctx.check(bad is None, 'R19.3', BASE, 'PrecipitateBase.addStoppingCondition', add, "each call registers the condition together with one mode flag, True exactly for mode 'or'",
                  f'conditions and their or/and modes are not registered pairwise: {bad}', construct='addStoppingCondition: pairwise registration')
    except ME.Unknown as e:
        ctx.undecided('R19.3', BASE, 'PrecipitateBase.addStoppingCondition', add, f'registration uses a construct outside the tabulated fragment ({e})')


def r194(repo, ctx, index):
    table = {'VolumeFractionCondition': 'volFrac', 'AverageRadiusCondition': 'Ravg', 'DrivingForceCondition': 'drivingForce',
             'NucleationRateCondition': 'nucRate', 'PrecipitateDensityCondition': 'precipitateDensity', 'CompositionCondition': 'composition'}
    n = 0
    for cls, arr in table.items():
        key = (SC, cls)
        if key not in index.classes:
            ctx.undecided('R19.4', SC, cls, 0, 'condition class not found')
            continue
        n += 1
        reads = set()
        for name in ('_getData', '_poll'):
            # the method an instance of exactly this class runs (own or inherited), with class-level literals resolved for this class
            m = index.specialised(key, name)
            if m is not None:
                for node in ast.walk(m):
                    if isinstance(node, ast.Attribute) and U.chain(node) and U.chain(node)[:2] == ('model', 'pData') and len(U.chain(node)) >= 3:
                        reads.add(U.chain(node)[2])
        ctx.check(reads == {arr}, 'R19.4', SC, cls, index.classes[key], f'{cls} monitors the {arr} history', f'{cls} reads {sorted(reads)} instead of the {arr} history', construct=f'{cls}: {sorted(reads)}')
        # the selection stored by the constructor is the one used when polling
        init = index.lookup_method(key, '__init__')[2]
        own_init = index.methods(key).get('__init__')
        sel = set()
        if own_init is not None:
            for c in U.calls(own_init):
                for kw in c.keywords:
                    if kw.arg in ('phase', 'element'):
                        sel.add('_' + kw.arg)
        poll = index.lookup_method(key, '_poll')[2]
        used = {U.chain(nd)[1] for nd in ast.walk(poll) if isinstance(nd, ast.Attribute) and U.chain(nd) and U.chain(nd)[0] == 'self' and len(U.chain(nd)) == 2}
        ctx.check(sel and sel <= used, 'R19.4', SC, cls, poll, f'the selection given to the constructor ({sorted(sel)}) is the one used to pick the monitored column',
                  f'{cls} stores its selection {sorted(sel)} but polls with {sorted(used & {"_phase", "_element"}) or "no selection"}: the condition watches another phase/element than the one requested',
                  construct=f'{cls}: selection {sorted(sel)} vs poll {sorted(used)}')
    ctx.floor('R19.4', n, 6)
    f = repo.func(SC, f'{BASECLS}._testCondition')
    # every path of _testCondition: the branch taken for GREATER_THAN returns value > threshold, the other value < threshold
    sx = SymExec(repo, index, (SC, BASECLS))
    outs = [o for o in sx.run(f) if o.status != 'raise']
    seen = set()
    ok = bool(outs)
    for o in outs:
        sense = None
        for tv, text in o.conds:
            t = text.replace(' ', '').strip('()')
            for opname, flip in (('==', False), ('!=', True)):
                if t in (f'self._condition{opname}Inequality.GREATER_THAN', f'Inequality.GREATER_THAN{opname}self._condition'):
                    sense = 'gt' if ((tv == 'T') != flip) else 'lt'
                if t in (f'self._condition{opname}Inequality.LESSER_THAN', f'Inequality.LESSER_THAN{opname}self._condition'):
                    sense = 'lt' if ((tv == 'T') != flip) else 'gt'
        rv = o.retval
        got = None
        if isinstance(rv, tuple) and rv[0] == 'cmp' and len(rv) == 4:
            if rv[3] == ('old', '_value') and 'call' in repr(rv[2]):
                got = {'Gt': 'gt', 'Lt': 'lt'}.get(rv[1])
            elif rv[2] == ('old', '_value') and 'call' in repr(rv[3]):
                got = {'Lt': 'gt', 'Gt': 'lt'}.get(rv[1])
        if sense is None or got != sense:
            ok = False
        seen.add(sense)
    ok = ok and seen == {'gt', 'lt'}
    ctx.check(ok, 'R19.4', SC, f'{BASECLS}._testCondition', f, 'GREATER_THAN tests value > threshold, LESSER_THAN tests value < threshold', 'the inequality table is wrong')
    p = repo.func(SC, f'{BASECLS}._poll')
    from ..formula import single_defs, inline
    pdefs = single_defs(p)
    rets = [r for r in ast.walk(p) if isinstance(r, ast.Return) and r.value is not None]
    ok_poll = False
    if len(rets) == 1:
        rv = inline(rets[0].value, pdefs)
        if isinstance(rv, ast.Subscript) and isinstance(rv.slice, ast.Tuple) and len(rv.slice.elts) == 2:
            base, row, col = rv.value, rv.slice.elts[0], rv.slice.elts[1]
            ok_poll = isinstance(base, ast.Call) and U.call_name(base) == 'self._getData' and isinstance(row, ast.Name) and row.id == U.params(p)[2] \
                and isinstance(col, ast.Call) and U.call_attr(col) == 'phaseIndex' and len(col.args) == 1 and U.chain(col.args[0]) == ('self', '_phase')
    ctx.check(ok_poll, 'R19.4', SC, f'{BASECLS}._poll', p, 'per-phase conditions read column phaseIndex(phase) of their history', 'per-phase conditions do not read the column of the requested phase')


def _is_conds(e):
    c = U.chain(e)
    return bool(c) and c[-1] == 'stopConds' and c in (('self', 'stopConds'), ('stopConds',))


def _cond_loops(func):
    """loops over self.stopConds (or the constructor argument stored into it): (loop, index name | None, item name | None)"""
    out = []
    for l in ast.walk(func):
        if not isinstance(l, ast.For):
            continue
        it = l.iter
        if isinstance(it, ast.Call) and U.call_name(it) == 'range' and it.args and isinstance(it.args[-1], ast.Call) and U.call_name(it.args[-1]) == 'len' \
                and it.args[-1].args and _is_conds(it.args[-1].args[0]) and isinstance(l.target, ast.Name):
            out.append((l, l.target.id, None))
        elif _is_conds(it) and isinstance(l.target, ast.Name):
            out.append((l, None, l.target.id))
        elif isinstance(it, ast.Call) and U.call_name(it) == 'enumerate' and it.args and _is_conds(it.args[0]) \
                and isinstance(l.target, ast.Tuple) and len(l.target.elts) == 2 and all(isinstance(e, ast.Name) for e in l.target.elts):
            out.append((l, l.target.elts[0].id, l.target.elts[1].id))
    return out


def _is_item(e, idx, item):
    if item and isinstance(e, ast.Name) and e.id == item:
        return True
    return idx is not None and isinstance(e, ast.Subscript) and _is_conds(e.value) and isinstance(e.slice, ast.Name) and e.slice.id == idx


def r196(repo, ctx):
    f = repo.func(TTP, 'TTPCalculator._getStopTime')
    sq = U.seq(f)
    pos = {}
    for c in U.calls(f):
        nm = U.call_name(c)
        if nm in ('self.model.reset', 'self.model.setTemperature', 'self.model.solve'):
            pos.setdefault(nm, []).append(sq[id(c)])
    ok = all(len(pos.get(k, [])) == 1 for k in ('self.model.reset', 'self.model.setTemperature', 'self.model.solve')) \
        and pos['self.model.reset'][0] < pos['self.model.setTemperature'][0] < pos['self.model.solve'][0]
    ctx.check(ok, 'R19.6', TTP, 'TTPCalculator._getStopTime', f, 'the model is reset, the temperature set and then solved, in this order, for every temperature', 'the model is not reset before each temperature run')
    init = repo.func(TTP, 'TTPCalculator.__init__')
    clear = [c for c in U.calls(init) if U.call_name(c) == 'self.model.clearStoppingConditions']
    reg = False
    for l, idx, item in _cond_loops(init):
        for c in U.calls(l):
            if U.call_name(c) == 'self.model.addStoppingCondition' and c.args and _is_item(c.args[0], idx, item):
                mode = c.args[1] if len(c.args) >= 2 else U.kwarg(c, 'mode')
                if mode is not None and U.is_const(mode, 'and') and clear and U.seq(init)[id(clear[0])] < U.seq(init)[id(c)]:
                    reg = True
    ctx.check(bool(clear) and reg, 'R19.6', TTP, 'TTPCalculator.__init__', init, 'the calculator registers its conditions (and only those) as and-conditions', 'the calculator does not register its conditions as and-conditions')
    r = repo.func(BASE, 'PrecipitateBase.reset')
    loops = [l for l in ast.walk(r) if isinstance(l, ast.For) and U.chain(l.iter) == ('self', '_stoppingConditions')]
    ok = len(loops) == 1 and any(U.call_attr(c) == 'reset' for c in U.calls(loops[0]))
    ctx.check(ok, 'R19.6', BASE, 'PrecipitateBase.reset', r, 'resetting the model resets every registered condition', 'resetting the model does not reset the registered conditions')
    # the reported vector: element j is the crossing time of condition j, and the vector is what is returned
    rets = [x for x in ast.walk(f) if isinstance(x, ast.Return) and isinstance(x.value, ast.Name)]
    good = False
    for l, idx, item in _cond_loops(f):
        if idx is None:
            continue
        for st in ast.walk(l):
            if isinstance(st, ast.Assign) and isinstance(st.targets[0], ast.Subscript) and isinstance(st.targets[0].value, ast.Name) \
                    and isinstance(st.targets[0].slice, ast.Name) and st.targets[0].slice.id == idx:
                v = st.value
                if isinstance(v, ast.Call) and isinstance(v.func, ast.Attribute) and v.func.attr == 'satisfiedTime' and not v.args and _is_item(v.func.value, idx, item) \
                        and any(x.value.id == st.targets[0].value.id for x in rets):
                    good = True
    if not good:
        # comprehension form: np.fromiter / np.array / list of  cond.satisfiedTime()  over the registered conditions, returned
        binds = {st.targets[0].id: st.value for st in ast.walk(f) if isinstance(st, ast.Assign) and len(st.targets) == 1 and isinstance(st.targets[0], ast.Name)}

        def res(e, depth=0):
            while isinstance(e, ast.Name) and e.id in binds and depth < 6:
                e, depth = binds[e.id], depth + 1
            return e
        for x in ast.walk(f):
            if not (isinstance(x, ast.Return) and x.value is not None):
                continue
            v = res(x.value)
            if isinstance(v, ast.Call) and (U.call_name(v) or '') in ('np.fromiter', 'np.array', 'np.asarray', 'list') and v.args:
                v = res(v.args[0])
            if isinstance(v, (ast.GeneratorExp, ast.ListComp)) and len(v.generators) == 1 and not v.generators[0].ifs:
                g_ = v.generators[0]
                e_ = v.elt
                if isinstance(e_, ast.Call) and isinstance(e_.func, ast.Attribute) and e_.func.attr == 'satisfiedTime' and not e_.args and isinstance(g_.target, ast.Name):
                    it = res(g_.iter)
                    recv = e_.func.value
                    if U.chain(it) == ('self', 'stopConds') and isinstance(recv, ast.Name) and recv.id == g_.target.id:
                        good = True
                    if isinstance(it, ast.Call) and U.call_name(it) == 'range' and len(it.args) == 1:
                        n_ = res(it.args[0])
                        if isinstance(n_, ast.Call) and U.call_name(n_) == 'len' and U.chain(n_.args[0]) == ('self', 'stopConds') \
                                and isinstance(recv, ast.Subscript) and U.chain(recv.value) == ('self', 'stopConds') and isinstance(recv.slice, ast.Name) and recv.slice.id == g_.target.id:
                            good = True
    ctx.check(good, 'R19.6', TTP, 'TTPCalculator._getStopTime', f, 'the reported times are the crossing times of the conditions', 'the reported times are not the crossing times of the conditions')


def check(repo, ctx, index, purity):
    ctx.explanation = EXPLANATION
    ctx.assumptions += ['the interpolated crossing time lying inside the step is numeric and not decided']
    r191(repo, ctx, index)
    r192(repo, ctx, index)
    r193(repo, ctx)
    r194(repo, ctx, index)
    sub = type(ctx)(ctx.prop, ctx.repo, ctx.tier, ctx.seed)
    lo, hi, solve, names, init_nodes, fr = C05.bounds_roles(repo, sub)
    if lo and hi:
        C05.r52_loop(repo, sub, lo, hi, solve, names, init_nodes)
    for fnd in sub.findings:
        fnd.rule = 'R19.5/' + fnd.rule
        ctx.findings.append(fnd)
    r196(repo, ctx)
