"""C20 - saved files and surrogates reproduce what they were made from (table agreement, delegation, nullability).

R20.1 delegation agreement: the untrained fall-through of every surrogate getter forwards to its NAMESAKE on the underlying
      thermodynamics and passes on its own parameters; internal delegations forward the phase selection
R20.2 key tables: what toDict / save writes is exactly what fromDict / load reads (precipitation data, per-phase PBM
      entries, diffusion model, surrogate training data, strength model)
R20.3 nullability of saved values: a diffusion model saves its recordings exactly when they exist (None is never saved;
      existing recordings are never dropped), and loading tolerates their absence
R20.4 thermodynamics protocol: every method the precipitation model calls on its thermodynamics object exists on both
      thermodynamics classes and on the matching surrogate
"""
from __future__ import annotations
import ast
from .. import astutil as U
from ..symfield import SymExec, const, NONE
from ..source import AnalysisError, AnchorMissing

SU = 'kawin/thermo/Surrogate.py'
D = 'kawin/diffusion/Diffusion.py'
PP = 'kawin/precipitation/PrecipitationParameters.py'
EULER = 'kawin/precipitation/KWNEuler.py'
BASE = 'kawin/precipitation/KWNBase.py'
ST = 'kawin/precipitation/coupling/Strength.py'
GM = 'kawin/GenericModel.py'
GETTERS = [('GeneralSurrogate', 'getDrivingForce'), ('GeneralSurrogate', 'getInterdiffusivity'), ('GeneralSurrogate', 'getTracerDiffusivity'),
           ('BinarySurrogate', 'getInterfacialComposition'), ('MulticomponentSurrogate', 'curvatureFactor'),
           ('MulticomponentSurrogate', 'getGrowthAndInterfacialComposition'), ('MulticomponentSurrogate', 'impingementFactor')]
SELECT = ('precPhase', 'phase')

EXPLANATION = (
    'Decides that save and load agree on their key tables, that recordings are saved exactly when they exist, that the '
    'untrained branch of every surrogate getter forwards to the method of the same name with all of its own parameters, that '
    'internal delegations forward the phase selection, and that the thermodynamics protocol used by the precipitation model '
    'is implemented by every thermodynamics/surrogate class. Exact reproduction of array contents and interpolation at '
    'training points are numeric and not decided.')


def r201(repo, ctx, index):
    n = 0
    for cls, g in GETTERS:
        q = f'{cls}.{g}'
        f = repo.func(SU, q)
        pn = U.params(f)
        own = [p for p in pn[1:] if not p.startswith('*')]
        star = [p for p in pn if p.startswith('*')]
        calls = [c for c in U.calls(f) if (U.call_name(c) or '').startswith('self.therm.')]
        ctx.check(len(calls) == 1, 'R20.1', SU, q, calls[0] if calls else f, 'exactly one fall-through to the underlying thermodynamics', f'{len(calls)} fall-through calls to the underlying thermodynamics')
        for c in calls:
            n += 1
            callee = U.call_name(c).split('.')[-1]
            passed = {a.id for a in c.args if isinstance(a, ast.Name)} | {k.value.id for k in c.keywords if isinstance(k.value, ast.Name)} \
                | {a.value.id for a in c.args if isinstance(a, ast.Starred) and isinstance(a.value, ast.Name)} | {k.value.id for k in c.keywords if k.arg is None and isinstance(k.value, ast.Name)}
            missing = [p for p in own if p not in passed] + [p.lstrip('*') for p in star if p.lstrip('*') not in passed]
            ctx.check(callee == g and not missing, 'R20.1', SU, q, c, f'untrained {g} returns therm.{g}(...) with all of its own arguments',
                      (f'untrained {g} falls through to therm.{callee} (a different quantity)' if callee != g else f'untrained {g} does not pass on {missing} to the underlying thermodynamics'),
                      construct=U.src(c))
            rets = [r for r in ast.walk(f) if isinstance(r, ast.Return) and r.value is c]
            ctx.check(len(rets) == 1, 'R20.1', SU, q, c, 'the fall-through result is returned unchanged', 'the fall-through result is modified before it is returned')
        # internal delegations forward the phase selection
        sel = [p for p in own if p in SELECT]
        for c in U.calls(f):
            nm = U.call_name(c) or ''
            if nm.startswith('self.') and not nm.startswith('self.therm.') and nm.count('.') == 1:
                tgt = index.lookup_method((SU, cls), nm.split('.')[1])
                if tgt is None:
                    continue
                tp = U.params(tgt[2])
                for s_ in sel:
                    if s_ in tp:
                        pos = tp.index(s_) - 1
                        given = (len(c.args) > pos and isinstance(c.args[pos], ast.Name) and c.args[pos].id == s_) or any(k.arg == s_ and isinstance(k.value, ast.Name) and k.value.id == s_ for k in c.keywords)
                        ctx.check(given, 'R20.1', SU, q, c, f'the internal call {nm} receives the {s_} selection of the getter',
                                  f'{nm} is called without the {s_} given to {g}: it falls back to the first phase, so another phase than the requested one is evaluated', construct=U.src(c))
    ctx.floor('R20.1', n, 7)


def _dict_keys_written(func):
    keys = set()
    dicts = {'data'} | {r.value.id for r in ast.walk(func) if isinstance(r, ast.Return) and isinstance(r.value, ast.Name)}
    for n in ast.walk(func):
        if isinstance(n, ast.Assign) and isinstance(n.targets[0], ast.Subscript) and isinstance(n.targets[0].value, ast.Name) and n.targets[0].value.id in dicts - {'data'}:
            s = n.targets[0].slice
            if isinstance(s, ast.Constant):
                keys.add(s.value)
            elif isinstance(s, ast.BinOp) and isinstance(s.left, ast.Constant):
                keys.add(s.left.value + '*')
        if isinstance(n, ast.Dict):
            for k in n.keys:
                if isinstance(k, ast.Constant):
                    keys.add(k.value)
        if isinstance(n, ast.Assign) and isinstance(n.targets[0], ast.Subscript) and isinstance(n.targets[0].value, ast.Name) and n.targets[0].value.id == 'data':
            s = n.targets[0].slice
            if isinstance(s, ast.Constant):
                keys.add(s.value)
            elif isinstance(s, ast.BinOp) and isinstance(s.left, ast.Constant):
                keys.add(s.left.value + '*')
        if isinstance(n, ast.Call) and U.call_name(n) in ('np.savez', 'np.savez_compressed'):
            for k in n.keywords:
                if k.arg:
                    keys.add(k.arg)
    return keys


def _dict_keys_read(func, name='data'):
    keys = set()
    for n in ast.walk(func):
        if isinstance(n, ast.Subscript) and isinstance(n.value, ast.Name) and n.value.id == name and isinstance(n.ctx, ast.Load):
            s = n.slice
            if isinstance(s, ast.Constant):
                keys.add(s.value)
            elif isinstance(s, ast.BinOp) and isinstance(s.left, ast.Constant):
                keys.add(s.left.value + '*')
    return keys


def _super_chain(index, key, meth):
    """the definitions of `meth` an instance of exactly class `key` runs: the nearest one in the MRO and, as long as each
    calls super().meth(..), the next ones - each specialised to `key` (class-level tables resolved for that class, loops over
    them written out)"""
    out = []
    for k in index.mro(key):
        m = index.methods(k).get(meth)
        if m is None:
            continue
        out.append((k, index.specialised(key, meth, func=m)))
        if not any(isinstance(c.func, ast.Attribute) and c.func.attr == meth and isinstance(c.func.value, ast.Call) and U.call_name(c.func.value) == 'super' for c in U.calls(m)):
            break
    return out


def r202(repo, ctx, index=None):
    pairs = [(EULER, 'PrecipitateModel.toDict', 'PrecipitateModel.fromDict', 5), (D, 'DiffusionModel.toDict', 'DiffusionModel.fromDict', 4),
             (ST, 'StrengthModel.save', 'StrengthModel.load', 3)]
    # surrogates: what an instance of each class writes and reads, whichever class of the hierarchy holds the code
    for cls, floor in (('GeneralSurrogate', 2), ('BinarySurrogate', 3), ('MulticomponentSurrogate', 3)):
        key = (SU, cls)
        wchain, rchain = _super_chain(index, key, '_collectSurrogateData'), _super_chain(index, key, '_processSurrogateData')
        if not wchain or not rchain:
            raise AnchorMissing(f'{cls}: _collectSurrogateData / _processSurrogateData not found in {SU}')
        kw, kr = set(), set()
        for _, fw in wchain:
            kw |= _dict_keys_written(fw)
        for _, fr in rchain:
            pn = U.params(fr)
            kr |= _dict_keys_read(fr, name=pn[1] if len(pn) > 1 else 'data')
        ok = kw == kr and len(kw) >= floor
        ctx.check(ok, 'R20.2', SU, f'{rchain[0][0][1]}._processSurrogateData', rchain[0][1], f'a {cls} writes and reads the same {len(kw)} keys {sorted(kw)}',
                  f'save/load key tables of {cls} differ: written only {sorted(kw - kr)}, read only {sorted(kr - kw)}' + ('' if len(kw) >= floor else f' (only {len(kw)} keys, {floor} expected)'),
                  construct=f'{cls}._collectSurrogateData vs {cls}._processSurrogateData')
    for path, w, r, floor in pairs:
        fw, fr = repo.func(path, w), repo.func(path, r)
        if index is not None:
            # class-level tables of saved terms are resolved for the class and written out
            fw = index.specialised((path, w.split('.')[0]), w.split('.')[1]) or fw
            fr = index.specialised((path, r.split('.')[0]), r.split('.')[1]) or fr
        kw, kr = _dict_keys_written(fw), _dict_keys_read(fr)
        ok = kw == kr and len(kw) >= floor
        ctx.check(ok, 'R20.2', path, r, fr, f'{w.split(".")[-1]} writes and {r.split(".")[-1]} reads the same {len(kw)} keys {sorted(kw)}',
                  f'save/load key tables differ: written only {sorted(kw - kr)}, read only {sorted(kr - kw)}', construct=f'{w} vs {r}')
    # PrecipitationData uses one attribute table for both directions (checked in C03); here: both iterate it
    for m in ('toDict', 'fromDict'):
        f = repo.func(PP, f'PrecipitationData.{m}')
        ok = any(isinstance(x, (ast.For, ast.comprehension)) and U.chain(x.iter) == ('self', 'ATTRIBUTES') for x in ast.walk(f))
        ctx.check(ok, 'R20.2', PP, f'PrecipitationData.{m}', f, f'{m} iterates the shared attribute table', f'{m} does not iterate the shared attribute table')
    # delegation chain save -> toDict, load -> fromDict(dict(data))
    sv, ld = repo.func(GM, 'GenericModel.save'), repo.func(GM, 'GenericModel.load')
    ok = any(U.call_name(c) == 'self.toDict' for c in U.calls(sv)) and any(U.call_name(c) in ('np.savez_compressed', 'np.savez') and any(k.arg is None for k in c.keywords) for c in U.calls(sv))
    ctx.check(ok, 'R20.2', GM, 'GenericModel.save', sv, 'save writes exactly the dictionary produced by toDict', 'save does not write the dictionary produced by toDict')
    ok = any(U.call_name(c) == 'self.fromDict' for c in U.calls(ld)) and any(U.call_name(c) == 'np.load' for c in U.calls(ld))
    ctx.check(ok, 'R20.2', GM, 'GenericModel.load', ld, 'load hands the file content to fromDict', 'load does not hand the file content to fromDict')
    for path, q in ((EULER, 'PrecipitateModel.toDict'), (EULER, 'PrecipitateModel.fromDict')):
        f = repo.func(path, q)
        ok = any(isinstance(c.func, ast.Attribute) and isinstance(c.func.value, ast.Call) and U.call_name(c.func.value) == 'super' for c in U.calls(f))
        ctx.check(ok, 'R20.2', path, q, f, f'{q.split(".")[-1]} includes the histories of the base class', f'{q.split(".")[-1]} drops the histories handled by the base class')


def r203(repo, ctx, index):
    key = (D, 'DiffusionModel')
    sx = SymExec(repo, index, key)
    td = repo.func(D, 'DiffusionModel.toDict')
    arr = ('call', 'np.zeros', (const(1),), ())
    for rec_flag in (True, False):
        # recordings exist (whatever the recording flag says now): they must be saved
        outs = [o for o in sx.run(td, fields={'_recordedX': arr, '_recordedTime': arr, '_record': const(rec_flag)}) if o.status != 'raise']
        ok = bool(outs) and all('recordX' in repr(o.retval) and 'recordTime' in repr(o.retval) for o in outs)
        ctx.check(ok, 'R20.3', D, 'DiffusionModel.toDict', td, f'existing recordings are saved (recording flag currently {rec_flag})',
                  f'recordings that exist are not saved when the recording flag is {rec_flag}: a model whose recording was switched off after some steps loses its history in the file',
                  construct=f'toDict[recordings present, _record={rec_flag}]')
        # no recordings: nothing that is None may be saved
        outs = [o for o in sx.run(td, fields={'_recordedX': NONE, '_recordedTime': NONE, '_record': const(rec_flag)}) if o.status != 'raise']
        ok = bool(outs) and all('recordX' not in repr(o.retval).replace("'recordX' in", '') and "('const', None)" not in repr(o.retval) for o in outs)
        ctx.check(ok, 'R20.3', D, 'DiffusionModel.toDict', td, f'absent recordings (None) are not written to the file (recording flag {rec_flag})',
                  'absent recordings are written as None: np.savez pickles them and np.load refuses the file', construct=f'toDict[recordings None, _record={rec_flag}]')
    fd = repo.func(D, 'DiffusionModel.fromDict')
    # must-analysis on the CFG: data['k'] is read only where "'k' in data" is known to hold
    from .. import cfg as C

    def key_tests(test, want):
        """keys k for which the outcome `want` of the test implies 'k' in data"""
        out = set()
        if isinstance(test, ast.Compare) and len(test.ops) == 1 and isinstance(test.left, ast.Constant) and isinstance(test.comparators[0], ast.Name) \
                and test.comparators[0].id == 'data':
            if (isinstance(test.ops[0], ast.In) and want) or (isinstance(test.ops[0], ast.NotIn) and not want):
                out.add(test.left.value)
        elif isinstance(test, ast.UnaryOp) and isinstance(test.op, ast.Not):
            out |= key_tests(test.operand, not want)
        elif isinstance(test, ast.BoolOp):
            if (isinstance(test.op, ast.And) and want) or (isinstance(test.op, ast.Or) and not want):
                for v in test.values:
                    out |= key_tests(v, want)
        return out
    g = C.build(fd)

    def gen(node, label):
        if node.kind == 'test' and label in (True, False):
            return key_tests(node.ast.test if hasattr(node.ast, 'test') else node.ast, label)
        return set()
    IN = C.must_forward(g, gen)
    unguarded = []
    for node in g.nodes:
        eff = C.simple_effect_node(node)
        if eff is None:
            continue
        for n in ast.walk(eff):
            if isinstance(n, ast.Subscript) and isinstance(n.value, ast.Name) and n.value.id == 'data' and isinstance(n.slice, ast.Constant) and n.slice.value in ('recordX', 'recordTime'):
                facts = IN.get(node.id)
                if facts is None or n.slice.value not in facts:
                    unguarded.append(n.slice.value)
    ctx.check(not unguarded, 'R20.3', D, 'DiffusionModel.fromDict', fd, 'loading tolerates files without recordings', f'loading requires {unguarded}, which files of models without recordings do not contain')


def r204(repo, ctx, index):
    used = set()
    for path in (BASE, EULER, 'kawin/precipitation/NucleationRate.py'):
        for q, f in repo.functions(path):
            for c in U.calls(f):
                nm = U.call_name(c) or ''
                if nm.startswith('self.therm.') and nm.count('.') == 2:
                    used.add(nm.split('.')[2])
                if nm.startswith('therm.') and nm.count('.') == 1:
                    used.add(nm.split('.')[1])
    binary_only = {'getInterfacialComposition'}
    multi_only = {'getGrowthAndInterfacialComposition', 'impingementFactor', 'curvatureFactor'}
    classes = {'binary': [('kawin/thermo/BinTherm.py', 'BinaryThermodynamics'), (SU, 'BinarySurrogate')],
               'multi': [('kawin/thermo/MultiTherm.py', 'MulticomponentThermodynamics'), (SU, 'MulticomponentSurrogate')]}
    n = 0
    for kind, clss in classes.items():
        need = {m for m in used if not ((kind == 'binary' and m in multi_only) or (kind == 'multi' and m in binary_only))}
        for key in clss:
            n += 1
            have = set()
            for k in index.mro(key):
                have |= {m.split('.')[0] for m in index.methods(k)}
                have |= set(index.field_writes(k, include_mro=False))
            missing = sorted(m for m in need if m not in have and not (kind == 'multi' and m in binary_only and False))
            ctx.check(not missing, 'R20.4', key[0], key[1], 0, f'{key[1]} implements every thermodynamics method/attribute the precipitation model uses ({len(need)})',
                      f'{key[1]} lacks {missing}, which the precipitation model calls on its thermodynamics object', construct=f'{key[1]}: protocol')
    ctx.floor('R20.4', n, 4)


NDARRAY_ONLY = {'shape', 'T', 'ndim', 'size', 'dtype', 'reshape', 'flatten', 'ravel', 'astype', 'transpose', 'squeeze', 'sum', 'mean', 'max', 'min', 'copy', 'tolist'}


def r206(repo, ctx):
    """the refit functions serve two callers: training (numpy arrays) and the rebuild from a JSON file (nested lists).
    A value taken from the training-data dictionary is therefore converted through numpy before anything that only an
    ndarray has is used on it"""
    n = 0
    for q, f in repo.functions(SU):
        if not q.split('.')[-1].startswith('_fit'):
            continue
        n += 1
        # the dictionary of this phase: a local bound to <something>Data[phase] / a parameter named data
        dnames = set()
        for s_ in ast.walk(f):
            if isinstance(s_, ast.Assign) and len(s_.targets) == 1 and isinstance(s_.targets[0], ast.Name):
                v_ = s_.value
                src_ = v_.value if isinstance(v_, ast.Subscript) else (v_.func.value if isinstance(v_, ast.Call) and isinstance(v_.func, ast.Attribute) and v_.func.attr == 'get' else None)
                if src_ is not None and U.chain(src_) and U.chain(src_)[-1].endswith('Data'):
                    dnames.add(s_.targets[0].id)
        raw = set()
        for s_ in ast.walk(f):
            if isinstance(s_, ast.Assign) and len(s_.targets) == 1:
                t_, v_ = s_.targets[0], s_.value
                pairs = [(t_, v_)]
                if isinstance(t_, ast.Tuple) and isinstance(v_, ast.Tuple) and len(t_.elts) == len(v_.elts):
                    pairs = list(zip(t_.elts, v_.elts))
                for a_, b_ in pairs:
                    if isinstance(a_, ast.Name) and isinstance(b_, ast.Subscript) and isinstance(b_.value, ast.Name) and b_.value.id in dnames \
                            and isinstance(b_.slice, ast.Constant):
                        raw.add(a_.id)
        # a raw name re-bound through numpy is no longer raw
        rebound = {t.id for s_ in ast.walk(f) if isinstance(s_, ast.Assign) for t in s_.targets if isinstance(t, ast.Name)
                   and isinstance(s_.value, ast.Call) and (U.call_name(s_.value) or '').startswith('np.') and t.id in raw}
        bad = []
        for node in ast.walk(f):
            if isinstance(node, ast.Attribute) and isinstance(node.value, ast.Name) and node.value.id in raw - rebound and node.attr in NDARRAY_ONLY:
                bad.append(node)
            if isinstance(node, ast.Subscript) and isinstance(node.value, ast.Name) and node.value.id in raw - rebound and isinstance(node.slice, ast.Tuple):
                bad.append(node)
        for b in bad:
            ctx.violation('R20.6', SU, q, b, f'{U.src(b)} uses an ndarray-only operation on a value read straight from the training-data dictionary: '
                          'after a rebuild from the JSON file that value is a nested list, so the saved surrogate cannot be rebuilt',
                          construct=f'{q}: {U.src(b)}')
        if not bad:
            ctx.ok('R20.6', SU, q, f, f'every value read from the training data ({sorted(raw)}) goes through numpy before array-only operations', construct=f'{q}: raw data')
    ctx.floor('R20.6', n, 3)


def r207(repo, ctx):
    """the public getters of the surrogates take what the underlying thermodynamics takes (a float, a list, a 1-D or 2-D
    array - the untrained path hands the argument through unchanged): on the trained path the argument is normalised
    (rebound through _process_x / _process_xT_arrays / np.*) before anything that needs a 2-D array is done with it"""
    n = 0
    for q, f in repo.functions(SU):
        name = q.split('.')[-1]
        if not (name.startswith('get') or name in ('curvatureFactor', 'impingementFactor')) or '.' not in q:
            continue
        pn = [p_ for p_ in U.params(f)[1:3] if p_ in ('x', 'T', 'gExtra')]
        if not pn:
            continue
        n += 1
        sq = U.seq(f)
        conv = {}
        for s_ in ast.walk(f):
            if isinstance(s_, ast.Assign) and isinstance(s_.value, ast.Call):
                cn = U.call_name(s_.value) or ''
                if cn.startswith('np.') or cn.split('.')[-1].startswith('_process'):
                    for t in U.flat_targets(s_):
                        if isinstance(t, ast.Name) and t.id in pn:
                            conv.setdefault(t.id, []).append(sq[id(s_)])
        bad = []
        for node in ast.walk(f):
            raw_attr = isinstance(node, ast.Subscript) and isinstance(node.value, ast.Attribute) and node.value.attr == 'shape' \
                and isinstance(node.value.value, ast.Name) and node.value.value.id in pn
            if raw_attr:
                nm = node.value.value.id
                # converted on every path before this use?  (conservative: some conversion textually earlier in the same block chain)
                anc = [c for c in conv.get(nm, []) if c < sq[id(node)]]
                dominated = False
                for s_ in ast.walk(f):
                    if isinstance(s_, ast.Assign) and sq[id(s_)] in anc:
                        # the conversion dominates the use if it is not nested deeper than the use's own enclosing block
                        for blk_owner in ast.walk(f):
                            for attr in ('body', 'orelse'):
                                b_ = getattr(blk_owner, attr, None)
                                if isinstance(b_, list) and s_ in b_ and any(any(x is node for x in ast.walk(y)) for y in b_[b_.index(s_) + 1:]):
                                    dominated = True
                if not dominated:
                    bad.append(node)
        for b in bad:
            ctx.violation('R20.7', SU, q, b, f'{U.src(b)} is taken of the argument as the caller passed it: a list or a 1-D array of one composition (documented, and accepted '
                          'while the surrogate is untrained) raises here once the model is trained', construct=f'{q}: {U.src(b)}')
        if not bad:
            ctx.ok('R20.7', SU, q, f, f'{name}: no 2-D-only operation on {pn} before it is normalised', construct=f'{q}: argument normalisation')
    ctx.floor('R20.7', n, 6)


ROW_DROPPING = {'_filter_points', 'np.unique', 'np.delete', 'np.compress', 'np.extract', 'np.random.choice', 'np.random.permutation', 'np.setdiff1d', 'np.intersect1d'}
ROW_PRESERVING = {'np.atleast_2d', 'np.atleast_1d', 'np.log', 'np.exp', 'np.concatenate', 'np.array', 'np.asarray', 'np.sign', 'np.power', 'np.abs', 'np.squeeze', 'np.transpose',
                  'np.hstack', 'np.column_stack', 'np.reshape', 'np.sqrt', 'np.cbrt', 'self._createInput', 'np.zeros', 'np.ones', 'len', 'range', 'np.expand_dims', 'float', 'int',
                  'np.linalg.inv', 'np.matmul', 'np.dot', 'np.log10', 'np.broadcast_to', 'np.full'}


def r209(repo, ctx, index):
    """a surrogate (trained now or rebuilt from its file - both go through _fit*) interpolates its stored training data only if
    every stored point enters the fit: the arrays handed to the kernel derive from the stored data through row-preserving
    operations (reshape, log, column concatenation, column selection by _createInput - confirmed by reading); a call that can
    drop or reorder rows (_filter_points, np.unique, boolean masks) between the stored data and the kernel is reported"""
    n = 0
    for path, q, f in repo.all_functions():
        if path != SU or not q.split('.')[-1].startswith('_fit'):
            continue
        kcalls = [c for c in U.calls(f) if U.call_name(c) == 'self.kernel']
        if not kcalls:
            continue
        n += 1
        # backward slice of the kernel arguments over the local bindings (all reaching definitions of a name are included)
        binds = {}
        for st in ast.walk(f):
            if isinstance(st, (ast.Assign, ast.AugAssign)):
                for t in (U.flat_targets(st) if isinstance(st, ast.Assign) else [st.target]):
                    if isinstance(t, ast.Name):
                        binds.setdefault(t.id, []).append(st)
        todo = [a for c in kcalls for a in c.args]
        seen, exprs = set(), []
        while todo:
            e = todo.pop()
            exprs.append(e)
            for nm in U.names_in(e):
                if nm not in seen:
                    seen.add(nm)
                    for st in binds.get(nm, []):
                        todo.append(st.value)
        dropping, unknown = [], []
        for e in exprs:
            for c in U.calls(e):
                nm = U.call_name(c) or U.src(c.func)
                if nm in ROW_DROPPING or nm.split('.')[-1] in {x.split('.')[-1] for x in ROW_DROPPING if x.startswith('_')}:
                    dropping.append(c)
                elif nm not in ROW_PRESERVING and not (isinstance(c.func, ast.Attribute) and c.func.attr in ('get', 'reshape', 'flatten', 'astype', 'copy', 'ravel', 'transpose')):
                    unknown.append(c)
            for sub in ast.walk(e):
                if isinstance(sub, ast.Subscript) and isinstance(sub.ctx, ast.Load) and isinstance(sub.slice, (ast.Compare, ast.BoolOp)):
                    dropping.append(sub)      # boolean mask selects rows
        if dropping:
            ctx.violation('R20.9', SU, q, dropping[0], f'{U.src(dropping[0])[:70]} can drop training points between the stored data and the kernel: the surrogate (and one rebuilt from its file) '
                          'no longer interpolates every stored training point', construct=f'{q}: {U.src(dropping[0])[:60]}')
        elif unknown:
            ctx.undecided('R20.9', SU, q, unknown[0], f'{U.src(unknown[0])[:60]} is not in the table of row-preserving operations confirmed for the fit functions')
        else:
            ctx.ok('R20.9', SU, q, f, f'every array handed to the kernel derives from the stored training data through row-preserving operations ({len(exprs)} expressions in the slice)', construct=f'{q}: rows preserved')
    ctx.floor('R20.9', n, 4)


CURV_FIELDS = {'dc': 'dc', 'mc': 'mc', 'gba': 'gba', 'beta': 'beta', 'xEqAlpha': 'c_eq_alpha', 'xEqBeta': 'c_eq_beta'}


def r2010(repo, ctx):
    """layout agreement of the curvature surrogate: _fitCurvature packs the training columns [dc | mc | gba | beta | xEqAlpha |
    xEqBeta] and _surrogateOutputToCurvature cuts a predicted row apart again.  The column interval each field is read from
    (symbolic in the number of elements n) must be the interval it was written to."""
    import sympy as sp
    n = sp.Symbol('n', positive=True, integer=True)
    cls = 'MulticomponentSurrogate'
    fw = repo.func(SU, f'{cls}._fitCurvature')
    fr = repo.func(SU, f'{cls}._surrogateOutputToCurvature')
    # ---- writer: widths of the concatenated blocks
    wdefs = {}
    for st in ast.walk(fw):
        if isinstance(st, ast.Assign) and len(st.targets) == 1 and isinstance(st.targets[0], ast.Name):
            wdefs.setdefault(st.targets[0].id, []).append(st.value)
        elif isinstance(st, ast.Assign) and len(st.targets) == 1 and isinstance(st.targets[0], ast.Tuple) and isinstance(st.value, ast.Tuple):
            for a, b in zip(st.targets[0].elts, st.value.elts):
                if isinstance(a, ast.Name):
                    wdefs.setdefault(a.id, []).append(b)

    def origin(e, depth=0):
        """(training-data key, width) of a block expression"""
        if depth > 8:
            return None
        if isinstance(e, ast.Subscript) and isinstance(e.value, ast.Name) and e.value.id == 'data' and U.is_const(e.slice):
            return (e.slice.value, None)
        if isinstance(e, ast.Attribute) and e.attr == 'T':
            o = origin(e.value, depth + 1)
            return (o[0], 'T' if o[1] == 'row' else o[1]) if o else None
        if isinstance(e, ast.Call):
            nm = U.call_name(e) or ''
            if nm == 'np.atleast_2d' and e.args:
                o = origin(e.args[0], depth + 1)
                return (o[0], 'row') if o else None
            if nm in ('np.log', 'np.array', 'np.exp', 'np.asarray') and e.args:
                return origin(e.args[0], depth + 1)
            if nm == 'np.reshape' and len(e.args) == 2:
                o = origin(e.args[0], depth + 1)
                shp = e.args[1]
                if o and isinstance(shp, ast.Tuple) and len(shp.elts) == 2 and isinstance(shp.elts[1], ast.BinOp) and isinstance(shp.elts[1].op, ast.Mult):
                    return (o[0], 'square')
                return None
        if isinstance(e, ast.Name) and e.id in wdefs:
            outs = [origin(v, depth + 1) for v in wdefs[e.id] if not (isinstance(v, ast.Name) and v.id == e.id)]
            outs = [o for o in outs if o]
            keys = {o[0] for o in outs}
            if len(keys) == 1:
                kinds = [o[1] for o in outs if o[1]]
                return (keys.pop(), kinds[-1] if kinds else None)
        return None
    cat = [c for c in U.calls(fw) if U.call_name(c) == 'np.concatenate' and c.args and isinstance(c.args[0], (ast.Tuple, ast.List)) and len(c.args[0].elts) >= 4]
    if len(cat) != 1:
        ctx.undecided('R20.10', SU, f'{cls}._fitCurvature', fw, 'the concatenation of the training columns was not found')
        return
    layout, off = {}, sp.Integer(0)
    for blk in cat[0].args[0].elts:
        o = origin(blk)
        if o is None or o[1] not in ('row', 'T', 'square'):
            ctx.undecided('R20.10', SU, f'{cls}._fitCurvature', blk, f'width of the training block {U.src(blk)} not recognised')
            return
        w = {'row': n, 'T': sp.Integer(1), 'square': n * n}[o[1]]
        layout[o[0]] = (off, off + w)
        off = off + w
    # ---- reader: interval every field is cut from
    pn = U.params(fr)
    out_name, n_name = pn[1], pn[2]
    env = {n_name: n}
    rows = {out_name}
    got = {}

    numdicts = {}       # local dictionaries with literal keys and offset-like values (column counts per field)

    def num(e):
        if isinstance(e, ast.Constant) and isinstance(e.value, int):
            return sp.Integer(e.value)
        if isinstance(e, ast.Name) and e.id in env:
            return env[e.id]
        if isinstance(e, ast.Subscript) and isinstance(e.value, ast.Name) and e.value.id in numdicts and U.is_const(e.slice) and e.slice.value in numdicts[e.value.id]:
            return numdicts[e.value.id][e.slice.value]
        if isinstance(e, ast.BinOp) and isinstance(e.op, (ast.Add, ast.Sub, ast.Mult, ast.Pow)):
            l, r = num(e.left), num(e.right)
            return {ast.Add: l + r, ast.Sub: l - r, ast.Mult: l * r, ast.Pow: l ** r}[type(e.op)]
        raise AnalysisError(f'offset expression {U.src(e)}')

    def interval(e):
        """column interval of an expression that is (a wrapper around) one slice / index of the predicted row"""
        if isinstance(e, ast.Call) and (U.call_name(e) or '') in ('np.squeeze', 'np.reshape', 'np.exp', 'np.array', 'float', 'np.atleast_1d') and e.args:
            return interval(e.args[0])
        if isinstance(e, ast.IfExp):
            a, b = interval(e.body), interval(e.orelse)
            return a if a == b else None
        if isinstance(e, ast.Name) and e.id in got:
            return got[e.id]
        if isinstance(e, ast.Subscript) and isinstance(e.value, ast.Name) and U.is_const(e.slice) and f'{e.value.id}[{e.slice.value!r}]' in got:
            return got[f'{e.value.id}[{e.slice.value!r}]']
        def is_row(b):
            if isinstance(b, ast.Name):
                return b.id in rows and b.id != out_name
            return isinstance(b, ast.Subscript) and isinstance(b.value, ast.Name) and b.value.id == out_name and (
                U.is_const(b.slice, 0) or (isinstance(b.slice, ast.Tuple) and len(b.slice.elts) == 2 and U.is_const(b.slice.elts[0], 0)
                                           and isinstance(b.slice.elts[1], ast.Slice) and b.slice.elts[1].lower is None and b.slice.elts[1].upper is None))
        if isinstance(e, ast.Subscript) and (is_row(e.value) or (isinstance(e.value, ast.Name) and e.value.id == out_name)):
            sl = e.slice
            if isinstance(e.value, ast.Name) and e.value.id == out_name:
                if isinstance(sl, ast.Tuple) and len(sl.elts) == 2 and U.is_const(sl.elts[0], 0):
                    sl = sl.elts[1]
                else:
                    return None
            if isinstance(sl, ast.Slice):
                lo = num(sl.lower) if sl.lower is not None else sp.Integer(0)
                hi = num(sl.upper) if sl.upper is not None else None
                return (sp.expand(lo), sp.expand(hi) if hi is not None else None)
            v = num(sl)
            return (sp.expand(v), sp.expand(v + 1))
        return None
    try:
        for st in U.body_without_docstring(fr):
            if isinstance(st, ast.Assign) and len(st.targets) == 1 and isinstance(st.targets[0], ast.Name) and isinstance(st.value, ast.Dict) and st.value.keys \
                    and all(isinstance(k, ast.Constant) for k in st.value.keys):
                try:
                    numdicts[st.targets[0].id] = {k.value: num(v) for k, v in zip(st.value.keys, st.value.values)}
                    continue
                except AnalysisError:
                    pass
            if isinstance(st, ast.Assign) and len(st.targets) == 1 and isinstance(st.targets[0], ast.Subscript) and isinstance(st.targets[0].value, ast.Name) \
                    and U.is_const(st.targets[0].slice):
                iv = interval(st.value)
                if iv is not None:
                    got[f'{st.targets[0].value.id}[{st.targets[0].slice.value!r}]'] = iv
                continue
            if isinstance(st, ast.Assign) and len(st.targets) == 1 and isinstance(st.targets[0], ast.Name):
                t, v = st.targets[0].id, st.value
                if isinstance(v, ast.Subscript) and isinstance(v.value, ast.Name) and v.value.id == out_name and (U.is_const(v.slice, 0) or (isinstance(v.slice, ast.Tuple) and U.is_const(v.slice.elts[0], 0)
                                                                                                                     and isinstance(v.slice.elts[1], ast.Slice) and v.slice.elts[1].lower is None and v.slice.elts[1].upper is None)):
                    rows.add(t)
                    continue
                iv = interval(v)
                if iv is not None:
                    got[t] = iv
                    continue
                try:
                    env[t] = num(v)
                except AnalysisError:
                    pass
            elif isinstance(st, ast.AugAssign) and isinstance(st.target, ast.Name) and isinstance(st.op, ast.Add) and st.target.id in env:
                env[st.target.id] = env[st.target.id] + num(st.value)
            elif isinstance(st, ast.If):
                for b in st.body + st.orelse:
                    if isinstance(b, ast.Assign) and len(b.targets) == 1 and isinstance(b.targets[0], ast.Name):
                        iv = interval(b.value)
                        if iv is not None:
                            got[b.targets[0].id] = iv
    except AnalysisError as e:
        ctx.undecided('R20.10', SU, f'{cls}._surrogateOutputToCurvature', fr, f'offsets of the predicted row not computable: {e}')
        return
    ctor = [c for c in U.calls(fr) if (U.call_name(c) or '').split('.')[-1] == 'CurvatureOutput']
    if len(ctor) != 1:
        ctx.undecided('R20.10', SU, f'{cls}._surrogateOutputToCurvature', fr, 'construction of the CurvatureOutput not found')
        return
    total = off
    nf = 0
    star = [k.value.id for k in ctor[0].keywords if k.arg is None and isinstance(k.value, ast.Name)]
    for key, field in CURV_FIELDS.items():
        kw = U.kwarg(ctor[0], field)
        iv = interval(kw) if kw is not None else None
        if kw is None and star:         # CurvatureOutput(**terms): the fields are the keys stored into the dictionary
            iv = got.get(f'{star[0]}[{field!r}]')
            kw = ctor[0]
        want = layout.get(key)
        if iv is None or want is None:
            ctx.undecided('R20.10', SU, f'{cls}._surrogateOutputToCurvature', kw or fr, f'columns of the field {field} not identified')
            continue
        nf += 1
        hi = iv[1] if iv[1] is not None else total
        ok = sp.simplify(iv[0] - want[0]) == 0 and sp.simplify(hi - want[1]) == 0
        ctx.check(ok, 'R20.10', SU, f'{cls}._surrogateOutputToCurvature', kw, f'{field} is read from columns [{want[0]}, {want[1]}), where _fitCurvature wrote {key}',
                  f'{field} is read from columns [{iv[0]}, {hi}) of the predicted row but _fitCurvature wrote {key} to [{sp.expand(want[0])}, {sp.expand(want[1])}): the surrogate returns another quantity '
                  'than it was trained on at every point, including the training points', construct=f'{field}: columns of the predicted row')
    ctx.floor('R20.10', nf, 6)


def check(repo, ctx, index, purity):
    ctx.explanation = EXPLANATION
    ctx.assumptions += ['exact reproduction of array contents and interpolation at training points are numeric and not decided']
    r201(repo, ctx, index)
    r202(repo, ctx, index)
    r203(repo, ctx, index)
    r204(repo, ctx, index)
    r206(repo, ctx)
    r207(repo, ctx)
    r209(repo, ctx, index)
    r2010(repo, ctx)
    # R20.8: the population balance of a loaded model is rebuilt on the saved grid (C08 R8.7)
    from . import C08
    sub = type(ctx)(ctx.prop, ctx.repo, ctx.tier, ctx.seed)
    C08.r87(repo, sub, index)
    for fnd in sub.findings:
        fnd.rule = 'R20.8/' + fnd.rule
        ctx.findings.append(fnd)
