"""Anchors and small recognisers shared by the precipitation rules (C01, C02, C03, C13, C14)."""
from __future__ import annotations
import ast
from .. import astutil as U
from ..formula import single_defs, inline, factors

EULER = 'kawin/precipitation/KWNEuler.py'
BASE = 'kawin/precipitation/KWNBase.py'
PP = 'kawin/precipitation/PrecipitationParameters.py'
PB = 'kawin/precipitation/PopulationBalance.py'
NR = 'kawin/precipitation/NucleationRate.py'
MODEL = 'PrecipitateModel'
PBASE = 'PrecipitateBase'


def phase_loops(func):
    """for-loops whose iterable ranges over the phases: range(len(self.phases|self.precipitateParameters|phases))"""
    out = []
    for n in ast.walk(func):
        if isinstance(n, ast.For) and isinstance(n.target, ast.Name):
            it = n.iter
            if isinstance(it, ast.Call) and U.call_name(it) == 'range' and it.args:
                a = it.args[-1] if len(it.args) == 1 else it.args[1]
                if isinstance(a, ast.Call) and U.call_name(a) == 'len' and a.args:
                    c = U.chain(a.args[0])
                    if c and c[-1] in ('phases', 'precipitateParameters', 'PBM', 'PBMs'):
                        out.append(n)
    return out


def chain_of(e, defs):
    """attribute chain of an expression after inlining single-assignment locals; index expressions dropped but kept in a list"""
    e = inline(e, defs)
    c = U.chain(e)
    return c


def index_names(e, defs):
    e = inline(e, defs)
    out = []
    for n in ast.walk(e):
        if isinstance(n, ast.Subscript):
            out.append(U.src(n.slice))
    return out


def subscript_store(stmt, base_chain):
    """target Subscript of `stmt` whose base chain (without indices) equals base_chain, else None"""
    for t in U.flat_targets(stmt):
        if isinstance(t, ast.Subscript) and U.chain(t.value) == base_chain:
            return t
    return None


def is_zero_value(v):
    if U.is_const(v, 0):
        return True
    if isinstance(v, ast.Call) and U.call_name(v) in ('np.zeros', 'np.zeros_like'):
        return True
    return False
