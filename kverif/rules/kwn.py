"""Anchors and small recognisers shared by the precipitation rules (C01, C02, C03, C13, C14)."""
from __future__ import annotations
import ast
from .. import astutil as U
from ..formula import single_defs, inline, factors

EULER = 'kawin/precipitation/KWNEuler.py'
BASE = 'kawin/precipitation/KWNBase.py'
PP = 'kawin/precipitation/PrecipitationParameters.py'
PB = 'kawin/precipitation/PopulationBalance.py'
NR = 'kawin/precipitation/NucleationRate.py'
MODEL = 'PrecipitateModel'
PBASE = 'PrecipitateBase'


def phase_loops(func):
    """for-loops whose iterable ranges over the phases: range(len(self.phases|self.precipitateParameters|phases))"""
    out = []
    for n in ast.walk(func):
        if isinstance(n, ast.For) and isinstance(n.target, ast.Name):
            it = n.iter
            if isinstance(it, ast.Call) and U.call_name(it) == 'range' and it.args:
                a = it.args[-1] if len(it.args) == 1 else it.args[1]
                if isinstance(a, ast.Call) and U.call_name(a) == 'len' and a.args:
                    c = U.chain(a.args[0])
                    if c and c[-1] in ('phases', 'precipitateParameters', 'PBM', 'PBMs'):
                        out.append(n)
    return out


def chain_of(e, defs):
    """attribute chain of an expression after inlining single-assignment locals; index expressions dropped but kept in a list"""
    e = inline(e, defs)
    c = U.chain(e)
    return c


def index_names(e, defs):
    e = inline(e, defs)
    out = []
    for n in ast.walk(e):
        if isinstance(n, ast.Subscript):
            out.append(U.src(n.slice))
    return out


def subscript_store(stmt, base_chain):
    """target Subscript of `stmt` whose base chain (without indices) equals base_chain, else None"""
    for t in U.flat_targets(stmt):
        if isinstance(t, ast.Subscript) and U.chain(t.value) == base_chain:
            return t
    return None


def is_zero_value(v):
    if U.is_const(v, 0):
        return True
    if isinstance(v, ast.Call) and U.call_name(v) in ('np.zeros', 'np.zeros_like'):
        return True
    return False


# ---------------------------------------------------------------------------------------------- nucleationBarrier paths
def _gb_test(t):
    """(is a test of isGrainBoundaryNucleation, negated?)"""
    neg = False
    while isinstance(t, ast.UnaryOp) and isinstance(t.op, ast.Not):
        neg = not neg
        t = t.operand
    return ('isGrainBoundaryNucleation' in U.src(t) and isinstance(t, (ast.Attribute, ast.Name, ast.Call))), neg


def select_nongb(expr):
    """the expression as evaluated when the nucleation site is not a grain-boundary type (conditional expressions on
    isGrainBoundaryNucleation are resolved)"""
    import copy

    class T(ast.NodeTransformer):
        def visit_IfExp(self, node):
            self.generic_visit(node)
            is_gb, neg = _gb_test(node.test)
            if is_gb:
                return node.body if neg else node.orelse
            return node
    return T().visit(copy.deepcopy(expr))


def nongb_statements(stmts):
    """statements executed on the non-grain-boundary path through if-statements on isGrainBoundaryNucleation"""
    out = []
    for st in stmts:
        if isinstance(st, ast.If):
            is_gb, neg = _gb_test(st.test)
            if is_gb:
                out += nongb_statements(st.body if neg else st.orelse)
                continue
        out.append(st)
    return out


def nongb_stores(fn, skip=('volumeDrivingForce', 'indices', 'Rcrit', 'Gcrit', 'Rmin')):
    """{array name: (store statement, local definitions in force)} along the non-grain-boundary path of nucleationBarrier"""
    stores, defs = {}, {}
    for st in nongb_statements(fn.body):
        if isinstance(st, ast.Assign) and isinstance(st.targets[0], ast.Name):
            nm = st.targets[0].id
            if nm not in U.names_in(st.value) and nm not in skip:
                defs[nm] = select_nongb(st.value)
        if isinstance(st, ast.Assign) and isinstance(st.targets[0], ast.Subscript) and isinstance(st.targets[0].value, ast.Name):
            stores[st.targets[0].value.id] = (st, dict(defs))
    return stores


def bulk_rcrit_proposal(fn):
    """(expression, statement) of the bulk/dislocation critical-radius proposal: the element of
    Rcrit[..] = amax([proposal, Rmin[..]]) that is not the minimum radius, locals inlined; (None, None) if not found"""
    stores = nongb_stores(fn)
    if 'Rcrit' not in stores:
        return None, None, False
    st, defs = stores['Rcrit']
    v = select_nongb(st.value)
    if isinstance(v, ast.Call) and U.call_name(v) in ('np.amax', 'np.maximum') and v.args:
        elts = v.args[0].elts if isinstance(v.args[0], (ast.List, ast.Tuple)) else v.args
        prop = [select_nongb(inline(e, defs)) for e in elts if 'Rmin' not in U.src(e)]
        has_min = any('Rmin' in U.src(e) for e in elts)
        if len(prop) == 1:
            return prop[0], st, has_min
    return None, st, False


def working_slice_is_fresh(repo, ctx, rule):
    """PrecipitationData.copySlice hands out the working record (`_currY`) that mass balance, nucleation and growth write into
    in place.  It must not share memory with the history arrays: values are transferred by element stores into the arrays of
    a newly constructed record, or by rebinding to an explicit copy - never by rebinding to an index / slice expression of a
    history array (a numpy view: writing the working record would rewrite the recorded row)."""
    PP_ = 'kawin/precipitation/PrecipitationParameters.py'
    q = 'PrecipitationData.copySlice'
    f = repo.func(PP_, q)
    rets = [r for r in ast.walk(f) if isinstance(r, ast.Return) and r.value is not None]
    names = {r.value.id for r in rets if isinstance(r.value, ast.Name)}
    if len(rets) != 1 or len(names) != 1:
        ctx.undecided(rule, PP_, q, f, 'copySlice does not return one named record')
        return
    R = names.pop()
    created = [s for s in ast.walk(f) if isinstance(s, ast.Assign) and any(isinstance(t, ast.Name) and t.id == R for t in s.targets)]
    fresh = len(created) == 1 and isinstance(created[0].value, ast.Call) and (U.call_name(created[0].value) or '').split('.')[-1] == 'PrecipitationData'
    ctx.check(fresh, rule, PP_, q, created[0] if created else f, 'the record handed out is a newly constructed PrecipitationData',
              'the record handed out by copySlice is not a newly constructed PrecipitationData: the working state aliases another record', construct='copySlice: record construction')
    COPIES = ('np.array', 'np.copy', 'copy.deepcopy', 'copy.copy', 'np.zeros', 'np.zeros_like', 'np.full', 'np.ones')

    def is_copy(v):
        if isinstance(v, ast.Call):
            nm = U.call_name(v) or ''
            if nm in COPIES and not any(k.arg == 'copy' for k in v.keywords):
                return True
            if isinstance(v.func, ast.Attribute) and v.func.attr == 'copy':
                return True
        return False
    n = 0
    for s in ast.walk(f):
        tgt_val = None
        if isinstance(s, ast.Expr) and isinstance(s.value, ast.Call) and isinstance(s.value.func, ast.Name) and s.value.func.id == 'setattr' and len(s.value.args) == 3 \
                and isinstance(s.value.args[0], ast.Name) and s.value.args[0].id == R:
            tgt_val = s.value.args[2]
        elif isinstance(s, ast.Assign) and any(isinstance(t, ast.Attribute) and isinstance(t.value, ast.Name) and t.value.id == R for t in s.targets):
            tgt_val = s.value
        elif isinstance(s, ast.Assign) and any(isinstance(t, ast.Subscript) for t in s.targets):
            for t in s.targets:
                b = t
                while isinstance(b, ast.Subscript):
                    b = b.value
                if (isinstance(b, ast.Call) and isinstance(b.func, ast.Name) and b.func.id == 'getattr' and b.args and isinstance(b.args[0], ast.Name) and b.args[0].id == R) \
                        or (isinstance(b, ast.Attribute) and isinstance(b.value, ast.Name) and b.value.id == R):
                    n += 1          # element store into the new record's own array: the data is copied
        if tgt_val is not None:
            n += 1
            reads_history = any((isinstance(x, ast.Call) and isinstance(x.func, ast.Name) and x.func.id == 'getattr' and x.args and isinstance(x.args[0], ast.Name) and x.args[0].id == 'self')
                                or (isinstance(x, ast.Attribute) and isinstance(x.value, ast.Name) and x.value.id == 'self') for x in ast.walk(tgt_val))
            ctx.check(is_copy(tgt_val) or not reads_history, rule, PP_, q, s, 'a field of the working record is rebound to an explicit copy',
                      f'a field of the working record is rebound to {U.src(tgt_val)[:60]}, an index/slice expression of a history array (a numpy view): the in-place updates of the working state '
                      'during a step overwrite the row already recorded', construct=U.src(s)[:100])
    ctx.floor(rule + '/transfers', n, 1)


def pbm_index_agreement(repo, ctx, rule, paths=(EULER,)):
    """a `*FromN` moment evaluates a supplied distribution on the grid of the population balance it is called on: the
    distribution of phase j must be given to the population balance of phase j - self.PBM[i].<..>FromN(x[j], ..) needs i == j
    (the receiver may be a local alias of self.PBM[i])."""
    n = 0
    for path in paths:
        for q, f in repo.functions(path):
            defs = single_defs(f)
            for c in U.calls(f):
                if not (isinstance(c.func, ast.Attribute) and c.func.attr.endswith('FromN') and c.args):
                    continue
                a0 = c.args[0]
                if not (isinstance(a0, ast.Subscript) and isinstance(a0.value, ast.Name)):
                    continue
                recv = c.func.value
                if isinstance(recv, ast.Name) and recv.id in defs:
                    recv = defs[recv.id]
                if not (isinstance(recv, ast.Subscript) and U.chain(recv.value) in (('self', 'PBM'),)):
                    continue
                n += 1
                i, j = U.src(recv.slice), U.src(a0.slice)
                ctx.check(i == j, rule, path, q, c, f'the distribution of phase {j} is evaluated on the population balance of the same phase',
                          f'{U.src(c)[:80]}: the distribution of phase {j} is evaluated on the grid of phase {i} - the moment belongs to neither phase '
                          '(sites / volume taken by another phase are counted with the wrong distribution)', construct=U.src(c)[:100])
    ctx.floor(rule, n, 4)
