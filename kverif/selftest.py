"""Thorough tier: liveness self-test of the rules of one property.

Every catalogue entry is an edit of the *current* tree computed from its source text and applied through
the in-memory overlay (nothing is written to disk, nothing is executed).  A `mutant` must compile and be
reported by the expected rule; a `benign` variant (behaviour-preserving refactoring) must stay silent.
An entry whose anchor text is absent from the current tree is skipped and listed (the tree has been edited);
a mutant that is not caught or a benign variant that raises an alarm means the checker lost its teeth:
exit 2 (ANALYSIS-ERROR), never a violation of the property.
"""
from __future__ import annotations
import importlib
import random
import re
import time

from . import report
from .source import Repo


class Entry:
    def __init__(self, name, file, edits, expect=None, kind='mutant', why=''):
        self.name, self.file, self.edits, self.expect, self.kind, self.why = name, file, edits, expect, kind, why


def _ws_regex(old):
    """regex matching `old` with arbitrary whitespace differences"""
    parts = [re.escape(p) for p in old.split()]
    return re.compile(r'\s+'.join(parts))


def apply_edits(text, edits):
    for old, new in edits:
        if old in text and text.count(old) == 1:
            text = text.replace(old, new)
            continue
        rx = _ws_regex(old)
        ms = list(rx.finditer(text))
        if len(ms) != 1:
            return None
        text = text[:ms[0].start()] + new + text[ms[0].end():]
    return text


def apply_unified_diff(texts: dict, diff_text: str):
    """apply a git unified diff to {path: text}; returns {path: new text} for the touched files or None if a hunk does not
    match (context is verified line by line; no fuzz)"""
    out = {}
    cur, lines, pos, newl = None, None, 0, None
    files = re.split(r'^diff --git .*$', diff_text, flags=re.M)[1:]
    for chunk in files:
        m = re.search(r'^\+\+\+ b/(\S+)', chunk, flags=re.M)
        if not m:
            return None
        path = m.group(1)
        if path not in texts:
            if re.search(r'^--- /dev/null', chunk, flags=re.M):
                texts = dict(texts)
                texts[path] = ''            # a file created by the patch
            else:
                return None
        src = texts[path].split('\n') if texts[path] else []
        res, at = [], 0
        hunks = re.split(r'^(@@ -\d+(?:,\d+)? \+\d+(?:,\d+)? @@).*$', chunk, flags=re.M)[1:]
        for h in range(0, len(hunks), 2):
            hm = re.match(r'@@ -(\d+)(?:,(\d+))? \+(\d+)(?:,(\d+))? @@', hunks[h])
            start = int(hm.group(1)) - 1
            if hm.group(2) == '0':
                start += 1
            body = hunks[h + 1].split('\n')
            if body and body[0] == '':
                body = body[1:]
            while body and body[-1] == '':
                body = body[:-1]
            body = [ln for ln in body if not ln.startswith('\\')]
            oldl = [(ln[1:] if ln else '') for ln in body if (ln[:1] in (' ', '-') or ln == '')]
            # locate the hunk: at the stated line, else at the nearest position where its old lines occur (like git's offset)
            cands = [q for q in range(at, len(src) - len(oldl) + 1) if src[q:q + len(oldl)] == oldl]
            if not cands:
                return None
            start = min(cands, key=lambda q: abs(q - start))
            res.extend(src[at:start])
            at = start
            for ln in body:
                tag, txt = (ln[0], ln[1:]) if ln else (' ', '')
                if tag == ' ':
                    res.append(txt)
                    at += 1
                elif tag == '-':
                    at += 1
                elif tag == '+':
                    res.append(txt)
                else:
                    return None
        res.extend(src[at:])
        out[path] = '\n'.join(res)
    return out


def refactor_entries(pid):
    """behaviour-preserving refactorings written by independent sub-agents (seeded/refactor*/): each must stay silent"""
    import glob
    import json
    import os
    base = os.path.join(os.path.dirname(os.path.dirname(os.path.abspath(__file__))), 'seeded')
    out = []
    for root in sorted(glob.glob(os.path.join(base, 'refactor*'))):
        idx = os.path.join(root, 'index.json')
        if not os.path.exists(idx):
            continue
        with open(idx) as fh:
            ids = json.load(fh).get(pid, [])
        for rid in ids:
            pth = os.path.join(root, rid, 'patch.diff')
            if os.path.exists(pth):
                with open(pth) as fh:
                    out.append((f'{os.path.basename(root)}-{rid}', fh.read()))
    return out


MISSES: dict = {}


def seed_entries(pid):
    """breaking changes written by independent sub-agents (seeded/Cxx-mN, seeded/wave*/Cxx-mN): each must be reported by the
    check of its property"""
    import glob
    import os
    root = os.path.join(os.path.dirname(os.path.dirname(os.path.abspath(__file__))), 'seeded')
    out = []
    MISSES[pid] = []
    import json
    for d in sorted(glob.glob(os.path.join(root, 'C??-m*'))) + sorted(glob.glob(os.path.join(root, 'wave*', 'C??-m*'))):
        pth = os.path.join(d, 'patch.diff')
        # a seed belongs to the check of the property its author named, unless its meta.json records (kverif_reported_by, with
        # the reason in kverif_note) that the clause it breaks is decided by the check of a sibling property
        owners = [os.path.basename(d).split('-')[0]]
        try:
            with open(os.path.join(d, 'meta.json')) as fh:
                meta = json.load(fh)
            owners = meta.get('kverif_reported_by') or owners
            if meta.get('kverif_not_detected'):
                # recorded miss: the change breaks a clause that no static rule of the machinery decides (reason in the meta file and
                # in DESIGN.md); it is listed in the evidence, not used as a liveness test
                if pid in owners:
                    MISSES.setdefault(pid, []).append((os.path.basename(os.path.dirname(d)) + '/' + os.path.basename(d), meta['kverif_not_detected']))
                continue
        except (OSError, ValueError):
            pass
        if pid not in owners:
            continue
        if os.path.exists(pth):
            tag = os.path.basename(os.path.dirname(d))
            with open(pth) as fh:
                out.append((f'seed-{"" if tag == "seeded" else tag + "-"}{os.path.basename(d)}', fh.read()))
    return out


def catalogue(pid):
    try:
        mod = importlib.import_module(f'kverif.catalogue.{pid}')
    except ModuleNotFoundError:
        return []
    return list(mod.ENTRIES)


def thorough(pid, ctx, root, seed):
    from .__main__ import run_property, LEVELS
    t0 = time.time()
    entries = catalogue(pid)
    random.Random(seed).shuffle(entries)
    base = Repo(root)
    results, missed, skipped = [], [], []
    for e in entries:
        if not base.has_module(e.file):
            skipped.append(e.name)
            continue
        new = apply_edits(base.module(e.file).text, e.edits)
        if new is None:
            skipped.append(e.name)
            continue
        try:
            compile(new, e.file, 'exec')
        except SyntaxError as ex:
            missed.append(f'{e.name}: edited file does not compile ({ex})')
            continue
        code, c2 = run_property(pid, 'quick', root, overlay={e.file: new}, write=False, quiet=True)
        viol = c2.by(report.VIOLATION)
        rules = sorted({f.rule for f in viol})
        if e.kind == 'mutant':
            ok = code == 1 and (e.expect is None or e.expect in rules)
            if not ok:
                missed.append(f'{e.name}: mutant not reported by {e.expect} (exit {code}, rules {rules})')
        else:
            ok = code == 0
            if not ok:
                und = [f.what for f in c2.by(report.UNDECIDED)]
                missed.append(f'{e.name}: benign variant raised exit {code} (rules {rules}, undecided {und[:2]})')
        results.append({'entry': e.name, 'kind': e.kind, 'expected_rule': e.expect, 'exit': code, 'rules': rules, 'ok': ok})
    texts = {p_: m_.text for p_, m_ in base.modules.items()}
    for name, diff in refactor_entries(pid):
        new = apply_unified_diff(texts, diff)
        if new is None:
            skipped.append(name)
            continue
        try:
            for p_, t_ in new.items():
                compile(t_, p_, 'exec')
        except SyntaxError as ex:
            missed.append(f'{name}: patched file does not compile ({ex})')
            continue
        code, c2 = run_property(pid, 'quick', root, overlay=new, write=False, quiet=True)
        rules = sorted({f.rule for f in c2.by(report.VIOLATION)})
        ok = code == 0
        if not ok:
            und = [f.what for f in c2.by(report.UNDECIDED)]
            missed.append(f'{name}: behaviour-preserving refactoring raised exit {code} (rules {rules}, undecided {und[:2]})')
        results.append({'entry': name, 'kind': 'benign', 'expected_rule': None, 'exit': code, 'rules': rules, 'ok': ok})
    for name, diff in seed_entries(pid):
        new = apply_unified_diff(texts, diff)
        if new is None:
            skipped.append(name)
            continue
        try:
            for p_, t_ in new.items():
                compile(t_, p_, 'exec')
        except SyntaxError as ex:
            missed.append(f'{name}: patched file does not compile ({ex})')
            continue
        code, c2 = run_property(pid, 'quick', root, overlay=new, write=False, quiet=True)
        rules = sorted({f.rule for f in c2.by(report.VIOLATION)})
        ok = code == 1
        if not ok:
            missed.append(f'{name}: seeded breaking change not reported (exit {code}, rules {rules})')
        results.append({'entry': name, 'kind': 'mutant', 'expected_rule': None, 'exit': code, 'rules': rules, 'ok': ok})
    n_mut = sum(1 for r in results if r['kind'] == 'mutant')
    n_ben = sum(1 for r in results if r['kind'] == 'benign')
    print(f'[{pid}] self-test: {n_mut} mutants + {n_ben} benign variants applied through the overlay, '
          f'{len(missed)} unexpected, {len(skipped)} skipped (anchor text absent on this tree)')
    for m in missed:
        print(f'ANALYSIS-ERROR property={pid} self-test: {m}')
    try:
        from .sweep import sweep
        from .index import Index
        from .purity import Purity
        ix = Index(base)
        adv = sweep(pid, base, ix, Purity(base, ix))
    except Exception as ex:                      # the sweep is advisory: it must never break a check
        adv = [f'sweep failed: {type(ex).__name__}: {ex}']
    for a in adv[:40]:
        print(f'  ADVISORY {a}')
    ctx.advisories = list(ctx.advisories) + adv
    ctx.extra['selftest'] = {'mutants': n_mut, 'benign': n_ben, 'skipped': skipped, 'unexpected': missed, 'results': results,
                             'seeded_changes_not_detected': [{'seed': s_, 'why': w_} for s_, w_ in MISSES.get(pid, [])]}
    for s_, w_ in MISSES.get(pid, []):
        print(f'  NOT-DETECTED seeded change {s_}: {w_[:160]}')
    ctx.tier = 'thorough'
    level = LEVELS.get(pid, 'other')
    extra = {}
    if level == 'proof':
        from .__main__ import CHECKER_CMD, TRUSTED
        extra = {'checker_cmd': CHECKER_CMD.format(id=pid, tier='thorough'), 'trusted_base': TRUSTED}
    import os
    if not os.environ.get('KVERIF_NOWRITE'):
        report.finish(ctx, level, ctx.extra.get('_t0', t0), extra, write=True, quiet=True)
    return 2 if missed else 0
