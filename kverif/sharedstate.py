"""T-SHARED: mutable objects created in a class body are shared by every instance until an instance rebinds the attribute.
An in-place change through an instance path (x.attr[..] = v, x.attr += v on an array, np.fill_diagonal(x.attr, ..),
x.attr.append(..)) therefore changes the value seen by all other instances.  Rebinding (x.attr = new) is fine."""
from __future__ import annotations
import ast
from . import astutil as U

INPLACE_FUNCS = {'np.fill_diagonal', 'np.put', 'np.copyto', 'np.place', 'np.putmask', 'np.put_along_axis', 'numpy.fill_diagonal'}
INPLACE_METHODS = {'fill', 'sort', 'resize', 'append', 'extend', 'insert', 'pop', 'remove', 'clear', 'update', 'setdefault', 'itemset', 'partition', 'setfield'}


def class_level_mutables(repo, paths=None):
    """{attr name: [(path, class name, node)]} for attributes bound in a class body to a mutable object, unless every
    constructor of that class rebinds the attribute on the instance"""
    out = {}
    for path, mod in repo.modules.items():
        if paths is not None and path not in paths:
            continue
        for cnode in mod.tree.body:
            if not isinstance(cnode, ast.ClassDef):
                continue
            inits = [m for m in cnode.body if isinstance(m, ast.FunctionDef) and m.name == '__init__']
            rebound = set()
            for m in inits:
                for n in ast.walk(m):
                    if isinstance(n, ast.Attribute) and isinstance(n.ctx, ast.Store) and isinstance(n.value, ast.Name) and n.value.id == 'self':
                        rebound.add(n.attr)
            for st in cnode.body:
                if isinstance(st, ast.Assign) and len(st.targets) == 1 and isinstance(st.targets[0], ast.Name):
                    v = st.value
                    mutable = isinstance(v, (ast.List, ast.Dict, ast.Set, ast.ListComp, ast.DictComp, ast.SetComp)) or \
                        (isinstance(v, ast.Call) and (U.call_name(v) or '') in ('dict.fromkeys', 'dict', 'list', 'set', 'collections.defaultdict', 'defaultdict', 'collections.OrderedDict', 'OrderedDict', 'bytearray')) or \
                        (isinstance(v, ast.Call) and (U.call_name(v) or '').split('.')[0] in ('np', 'numpy') and (U.call_name(v) or '').split('.')[-1] in
                         ('zeros', 'ones', 'empty', 'array', 'full', 'eye', 'identity', 'arange', 'linspace', 'zeros_like', 'ones_like'))
                    if mutable and st.targets[0].id not in rebound:
                        out.setdefault(st.targets[0].id, []).append((path, cnode.name, st))
    return out


def inplace_uses(repo, shared):
    """[(path, qualname, node, text)] in-place modifications of an attribute whose name is a shared class-level mutable"""
    hits = []
    for p, q, f in repo.all_functions():
        for n in ast.walk(f):
            tgt = None
            if isinstance(n, ast.Subscript) and isinstance(n.ctx, (ast.Store, ast.Del)):
                tgt = n.value
                while isinstance(tgt, ast.Subscript):
                    tgt = tgt.value
            elif isinstance(n, ast.AugAssign):
                tgt = n.target
                while isinstance(tgt, ast.Subscript):
                    tgt = tgt.value
            if isinstance(tgt, ast.Attribute) and tgt.attr in shared and not (isinstance(tgt.value, ast.Name) and tgt.value.id in ('cls',)):
                hits.append((p, q, n, f'{U.src(tgt)} is modified in place'))
            if isinstance(n, ast.Call):
                nm = U.call_name(n) or ''
                if nm in INPLACE_FUNCS and n.args and isinstance(n.args[0], ast.Attribute) and n.args[0].attr in shared:
                    hits.append((p, q, n, f'{nm} writes into {U.src(n.args[0])}'))
                if isinstance(n.func, ast.Attribute) and n.func.attr in INPLACE_METHODS and isinstance(n.func.value, ast.Attribute) and n.func.value.attr in shared:
                    hits.append((p, q, n, f'{U.src(n.func.value)}.{n.func.attr}() modifies it in place'))
                if any(k.arg == 'out' and isinstance(k.value, ast.Attribute) and k.value.attr in shared for k in n.keywords):
                    hits.append((p, q, n, 'out= writes into a shared class-level array'))
    return hits


def _is_mutable_literal(v):
    return isinstance(v, (ast.List, ast.Dict, ast.Set, ast.ListComp, ast.DictComp, ast.SetComp)) or \
        (isinstance(v, ast.Call) and isinstance(v.func, ast.Name) and v.func.id in ('dict', 'list', 'set', 'bytearray') and not v.args and not v.keywords) or \
        (isinstance(v, ast.Call) and (U.call_name(v) or '').split('.')[0] in ('np', 'numpy') and (U.call_name(v) or '').split('.')[-1] in
         ('zeros', 'ones', 'empty', 'array', 'full', 'eye', 'identity', 'arange', 'linspace', 'zeros_like', 'ones_like'))


def mutable_default_hits(repo, paths=None):
    """[(path, qualname, node, text)]: a parameter whose default is a mutable object created once at definition time is
    (a) modified in place in the function, or (b) stored into an attribute that is modified in place somewhere in the
    package.  Either way every call that relies on the default shares one object: state leaks between calls / instances."""
    hits = []
    n_params = 0
    inplace_attr = None
    for p, q, f in repo.all_functions():
        if paths is not None and p not in paths:
            continue
        a = f.args
        pos = a.posonlyargs + a.args
        pairs = list(zip(pos[len(pos) - len(a.defaults):], a.defaults)) + [(x, d) for x, d in zip(a.kwonlyargs, a.kw_defaults) if d is not None]
        for arg, d in pairs:
            if not _is_mutable_literal(d):
                continue
            n_params += 1
            name = arg.arg
            rebound_first = False
            # stores guarded by a test that the default value itself does not pass never touch the shared default object
            dead = set()
            try:
                from . import minieval as ME
                dval = ast.literal_eval(d)
                for cond in ast.walk(f):
                    if isinstance(cond, ast.If):
                        try:
                            taken = bool(ME.Evaluator({name: dval}).ev(cond.test))
                        except ME.Unknown:
                            continue
                        for blk in ((cond.orelse,) if taken else (cond.body,)):
                            for st_ in blk:
                                dead |= {id(x) for x in ast.walk(st_)}
            except (ValueError, SyntaxError):
                pass
            for n in ast.walk(f):
                if id(n) in dead:
                    continue
                # in-place change of the parameter itself
                tgt = None
                if isinstance(n, ast.Subscript) and isinstance(n.ctx, (ast.Store, ast.Del)):
                    tgt = n.value
                    while isinstance(tgt, ast.Subscript):
                        tgt = tgt.value
                elif isinstance(n, ast.AugAssign):
                    tgt = n.target
                    while isinstance(tgt, ast.Subscript):
                        tgt = tgt.value
                if isinstance(tgt, ast.Name) and tgt.id == name:
                    hits.append((p, q, n, f'parameter {name} (default {U.src(d)}, created once) is modified in place: the change is seen by every later call that relies on the default'))
                if isinstance(n, ast.Call) and isinstance(n.func, ast.Attribute) and n.func.attr in INPLACE_METHODS and isinstance(n.func.value, ast.Name) and n.func.value.id == name:
                    hits.append((p, q, n, f'parameter {name} (default {U.src(d)}, created once) is modified in place by .{n.func.attr}()'))
                # stored into an attribute that is modified in place elsewhere
                if isinstance(n, ast.Assign) and isinstance(n.value, ast.Name) and n.value.id == name:
                    for t in n.targets:
                        if isinstance(t, ast.Attribute):
                            if inplace_attr is None:
                                inplace_attr = {}
                                for p2, q2, f2 in repo.all_functions():
                                    for m in ast.walk(f2):
                                        tg = None
                                        if isinstance(m, ast.Subscript) and isinstance(m.ctx, (ast.Store, ast.Del)):
                                            tg = m.value
                                            while isinstance(tg, ast.Subscript):
                                                tg = tg.value
                                        elif isinstance(m, ast.AugAssign):
                                            tg = m.target
                                            while isinstance(tg, ast.Subscript):
                                                tg = tg.value
                                        elif isinstance(m, ast.Call) and isinstance(m.func, ast.Attribute) and m.func.attr in INPLACE_METHODS:
                                            tg = m.func.value
                                        if isinstance(tg, ast.Attribute):
                                            inplace_attr.setdefault(tg.attr, (p2, q2, m))
                            if t.attr in inplace_attr:
                                p2, q2, m = inplace_attr[t.attr]
                                hits.append((p, q, n, f'the default of parameter {name} ({U.src(d)}, one object for all calls) is stored as {U.src(t)}, which {q2} modifies in place '
                                                      f'({U.src(m)[:60]}): every instance built with the default shares that object'))
    return hits, n_params
