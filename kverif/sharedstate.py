"""T-SHARED: mutable objects created in a class body are shared by every instance until an instance rebinds the attribute.
An in-place change through an instance path (x.attr[..] = v, x.attr += v on an array, np.fill_diagonal(x.attr, ..),
x.attr.append(..)) therefore changes the value seen by all other instances.  Rebinding (x.attr = new) is fine."""
from __future__ import annotations
import ast
from . import astutil as U

INPLACE_FUNCS = {'np.fill_diagonal', 'np.put', 'np.copyto', 'np.place', 'np.putmask', 'np.put_along_axis', 'numpy.fill_diagonal'}
INPLACE_METHODS = {'fill', 'sort', 'resize', 'append', 'extend', 'insert', 'pop', 'remove', 'clear', 'update', 'setdefault', 'itemset', 'partition', 'setfield'}


def class_level_mutables(repo, paths=None):
    """{attr name: [(path, class name, node)]} for attributes bound in a class body to a mutable object, unless every
    constructor of that class rebinds the attribute on the instance"""
    out = {}
    for path, mod in repo.modules.items():
        if paths is not None and path not in paths:
            continue
        for cnode in mod.tree.body:
            if not isinstance(cnode, ast.ClassDef):
                continue
            inits = [m for m in cnode.body if isinstance(m, ast.FunctionDef) and m.name == '__init__']
            rebound = set()
            for m in inits:
                for n in ast.walk(m):
                    if isinstance(n, ast.Attribute) and isinstance(n.ctx, ast.Store) and isinstance(n.value, ast.Name) and n.value.id == 'self':
                        rebound.add(n.attr)
            for st in cnode.body:
                if isinstance(st, ast.Assign) and len(st.targets) == 1 and isinstance(st.targets[0], ast.Name):
                    v = st.value
                    mutable = isinstance(v, (ast.List, ast.Dict, ast.Set, ast.ListComp, ast.DictComp)) or \
                        (isinstance(v, ast.Call) and (U.call_name(v) or '').split('.')[0] in ('np', 'numpy') and (U.call_name(v) or '').split('.')[-1] in
                         ('zeros', 'ones', 'empty', 'array', 'full', 'eye', 'identity', 'arange', 'linspace', 'zeros_like', 'ones_like'))
                    if mutable and st.targets[0].id not in rebound:
                        out.setdefault(st.targets[0].id, []).append((path, cnode.name, st))
    return out


def inplace_uses(repo, shared):
    """[(path, qualname, node, text)] in-place modifications of an attribute whose name is a shared class-level mutable"""
    hits = []
    for p, q, f in repo.all_functions():
        for n in ast.walk(f):
            tgt = None
            if isinstance(n, ast.Subscript) and isinstance(n.ctx, (ast.Store, ast.Del)):
                tgt = n.value
                while isinstance(tgt, ast.Subscript):
                    tgt = tgt.value
            elif isinstance(n, ast.AugAssign):
                tgt = n.target
                while isinstance(tgt, ast.Subscript):
                    tgt = tgt.value
            if isinstance(tgt, ast.Attribute) and tgt.attr in shared and not (isinstance(tgt.value, ast.Name) and tgt.value.id in ('cls',)):
                hits.append((p, q, n, f'{U.src(tgt)} is modified in place'))
            if isinstance(n, ast.Call):
                nm = U.call_name(n) or ''
                if nm in INPLACE_FUNCS and n.args and isinstance(n.args[0], ast.Attribute) and n.args[0].attr in shared:
                    hits.append((p, q, n, f'{nm} writes into {U.src(n.args[0])}'))
                if isinstance(n.func, ast.Attribute) and n.func.attr in INPLACE_METHODS and isinstance(n.func.value, ast.Attribute) and n.func.value.attr in shared:
                    hits.append((p, q, n, f'{U.src(n.func.value)}.{n.func.attr}() modifies it in place'))
                if any(k.arg == 'out' and isinstance(k.value, ast.Attribute) and k.value.attr in shared for k in n.keywords):
                    hits.append((p, q, n, 'out= writes into a shared class-level array'))
    return hits
