"""Source provider: parses the non-test modules of the kawin package.

`Repo(root, overlay)` reads `<root>/kawin/**/*.py` (tests excluded).  `overlay`
maps repository-relative paths to replacement source text, so that the
self-test can analyse mutants without writing anything to disk.
"""
from __future__ import annotations
import ast
import hashlib
import os
from dataclasses import dataclass, field

DEFAULT_ROOT = os.environ.get('KVERIF_REPO', '/repo')


class AnalysisError(Exception):
    """The analysis could not be carried out (anchor vanished, idiom unknown)."""


class AnchorMissing(AnalysisError):
    pass


@dataclass
class Module:
    path: str            # repository-relative, e.g. kawin/solver/Solver.py
    name: str            # dotted module name
    text: str
    tree: ast.Module
    lines: list = field(default_factory=list)
    normalised: bool = False

    def segment(self, node) -> str:
        if self.normalised:
            return ast.unparse(node)
        try:
            return ast.get_source_segment(self.text, node) or ast.unparse(node)
        except Exception:
            return ast.unparse(node)


class Repo:
    def __init__(self, root: str | None = None, overlay: dict | None = None):
        self.root = root or DEFAULT_ROOT
        self.overlay = dict(overlay or {})
        self.modules: dict[str, Module] = {}
        self._load()

    def _load(self):
        pkg = os.path.join(self.root, 'kawin')
        if not os.path.isdir(pkg):
            raise AnchorMissing(f'package directory {pkg} not found')
        paths = []
        for dirpath, dirnames, filenames in os.walk(pkg):
            dirnames[:] = sorted(d for d in dirnames if d not in ('tests', '__pycache__'))
            for fn in sorted(filenames):
                if fn.endswith('.py'):
                    paths.append(os.path.relpath(os.path.join(dirpath, fn), self.root))
        for p in self.overlay:
            if p not in paths and p.endswith('.py'):
                paths.append(p)
        for rel in paths:
            if rel in self.overlay:
                text = self.overlay[rel]
            else:
                with open(os.path.join(self.root, rel), encoding='utf-8') as fh:
                    text = fh.read()
            try:
                tree = ast.parse(text, filename=rel)
            except SyntaxError as e:
                raise AnalysisError(f'{rel}: does not parse: {e}')
            name = rel[:-3].replace('/', '.')
            if name.endswith('.__init__'):
                name = name[:-9]
            self.modules[rel] = Module(rel, name, text, tree, text.splitlines())
        from . import normalise
        try:
            self.norm_log = normalise.apply(self.modules)
        except Exception as e:        # the pass is an optimisation of precision: if it fails the rules see the tree as written
            for rel, m in list(self.modules.items()):
                self.modules[rel] = Module(rel, m.name, m.text, ast.parse(m.text, filename=rel), m.lines)
            self.norm_log = []
            self.norm_error = f'{type(e).__name__}: {e}'
        if self.norm_log:
            for m in self.modules.values():
                m.normalised = True

    # ------------------------------------------------------------------ lookups
    def module(self, path: str) -> Module:
        m = self.modules.get(path)
        if m is None:
            raise AnchorMissing(f'module {path} not found')
        return m

    def has_module(self, path: str) -> bool:
        return path in self.modules

    def digest(self) -> str:
        h = hashlib.sha256()
        for p in sorted(self.modules):
            h.update(p.encode())
            h.update(self.modules[p].text.encode())
        return h.hexdigest()[:16]

    def cls(self, path: str, name: str) -> ast.ClassDef:
        for node in self.module(path).tree.body:
            if isinstance(node, ast.ClassDef) and node.name == name:
                return node
        raise AnchorMissing(f'class {name} not found in {path}')

    def has_cls(self, path, name):
        try:
            self.cls(path, name)
            return True
        except AnchorMissing:
            return False

    def func(self, path: str, qual: str) -> ast.FunctionDef:
        """qual is 'function' or 'Class.method' (properties: 'Class.name' getter,
        'Class.name.setter' for the setter)."""
        parts = qual.split('.')
        if len(parts) == 1:
            for node in self.module(path).tree.body:
                if isinstance(node, ast.FunctionDef) and node.name == parts[0]:
                    return node
            raise AnchorMissing(f'function {qual} not found in {path}')
        cls = self.cls(path, parts[0])
        want_setter = len(parts) == 3 and parts[2] == 'setter'
        for node in cls.body:
            if isinstance(node, ast.FunctionDef) and node.name == parts[1]:
                is_setter = any(isinstance(d, ast.Attribute) and d.attr == 'setter' for d in node.decorator_list)
                if is_setter == want_setter:
                    return node
        raise AnchorMissing(f'method {qual} not found in {path}')

    def has_func(self, path, qual):
        try:
            self.func(path, qual)
            return True
        except AnchorMissing:
            return False

    def functions(self, path: str):
        """yield (qualname, FunctionDef) for top-level functions and methods."""
        for node in self.module(path).tree.body:
            if isinstance(node, ast.FunctionDef):
                yield node.name, node
            elif isinstance(node, ast.ClassDef):
                for sub in node.body:
                    if isinstance(sub, ast.FunctionDef):
                        q = f'{node.name}.{sub.name}'
                        if any(isinstance(d, ast.Attribute) and d.attr == 'setter' for d in sub.decorator_list):
                            q += '.setter'
                        yield q, sub

    def all_functions(self):
        for p in sorted(self.modules):
            for q, f in self.functions(p):
                yield p, q, f
