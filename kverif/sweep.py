"""Thorough tier, widened sweep: the generic engines behind a property's rules are run over the whole package instead of
the frozen instance lists.  Hits outside the property's scope are ADVISORY only: printed and recorded in the evidence,
they never change the exit code (they are not claims about the property)."""
from __future__ import annotations
import ast
from . import astutil as U
from . import defassign, equiv, fresh


def sweep(pid, repo, index, purity):
    adv = []
    if pid in ('C03',):
        for p, q, f in repo.all_functions():
            if '/Plot' not in p:
                continue
            for name, node in defassign.check_function(f):
                adv.append(f'definite assignment (plot helper, outside C03): {p}:{node.lineno} {q} reads {name} on a path without assignment')
    if pid in ('C11',):
        for p, q, f in repo.all_functions():
            if p.startswith('kawin/precipitation/') or p == 'kawin/GenericModel.py' or '/Plot' in p:
                continue
            for loop, pv, coll in equiv.index_loops(f):
                for kind, node, text in equiv.check_loop(f, loop, pv):
                    adv.append(f'loop equivariance (outside the phase loops of C11): {p}:{node.lineno} {q} {kind}: {text[:100]}')
    if pid in ('C14', 'C16', 'C15'):
        for key in index.classes:
            try:
                caches, inp, problems, npaths = fresh.check_class(repo, index, key)
            except Exception:
                continue
            if not caches:
                continue
            for name, c, hit, conds, f in problems:
                adv.append(f'cache freshness: {key[0]} {key[1]}.{name} writes {hit} but leaves {c} in place')
            all_inputs = set().union(*inp.values()) if inp else set()
            for p, q, f in repo.all_functions():
                if p == key[0] and q.startswith(key[1] + '.'):
                    continue
                for s in U.walk_no_nested(f):
                    if isinstance(s, (ast.Assign, ast.AugAssign)):
                        for t in U.flat_targets(s):
                            c = U.chain(t)
                            if c and len(c) >= 3 and c[-1] in all_inputs and not c[-1].startswith('_') and c[0] == 'self':
                                owner = [k for k, v in index.classes.items() if c[-2] in {m for m in index.field_writes(k, include_mro=False)}]
                                adv.append(f'cache freshness: {p}:{s.lineno} {q} writes {".".join(c)} (an input of lazily cached values of {key[1]}) from outside the class without invalidation')
    if pid in ('C09', 'C06', 'C07', 'C15', 'C17', 'C18'):
        n = 0
        for p, q, f in repo.all_functions():
            if '/Plot' in p or q.split('.')[-1].startswith('_') or n > 400:
                continue
            names = [a.arg for a in f.args.posonlyargs + f.args.args]
            if names and names[0] in ('self', 'cls'):
                names = names[1:]
            for i, nm in enumerate(names):
                if nm in ('x', 'T', 'R', 'r', 'ar', 'gExtra', 'dG', 'rss', 'Ls', 'psd', 'flux', 'growth', 'N', 'weights', 'mobility', 'phaseFracs'):
                    n += 1
                    try:
                        sites, _ = purity.analyse(p, q, f, i)
                    except Exception:
                        continue
                    for s in sites[:1]:
                        if (s.path, s.qual) == (p, q) or True:
                            adv.append(f'argument purity (whole-package sweep): {p} {q}({nm}) may be modified in place at {s.path}:{getattr(s.node, "lineno", 0)} {s.qual} ({s.kind})')
    # de-duplicate, keep order
    seen, out = set(), []
    for a in adv:
        if a not in seen:
            seen.add(a)
            out.append(a)
    return out
