"""Symbolic field-state interpreter.

Executes a method of a kawin class *symbolically on its AST* (no kawin code runs): every path through
the method (calls to methods of the same object and property getters/setters are inlined, class-hierarchy
resolved) yields the final abstract value of each field of `self` as a term over
   ('old', field)      value of the field on entry
   ('arg', name)       a parameter of the entry method
   ('const', v)        literal
   ('op', name, a, b)  arithmetic (Add/Mult operands are sorted: commutative normal form)
   ('call', name, args, kwargs)   opaque call
   ('sub', base, index) / ('attr', base, name) / ('tuple', ...) / ('ite', c, a, b) / ('cmp', ...)
Conditions that can be decided from the terms (constants, `is None`, booleans bound by the caller)
prune a branch; everything else forks the path.  Loops havoc what they write.
"""
from __future__ import annotations
import ast
from dataclasses import dataclass, field
from . import astutil as U
from .source import AnalysisError

MAX_PATHS = 256
MAX_DEPTH = 8


def const(v):
    return ('const', v)


NONE = const(None)


def norm_op(name, a, b):
    if name in ('Add', 'Mult'):
        a, b = sorted((a, b), key=repr)
    # constant folding for numbers
    if a[0] == 'const' and b[0] == 'const' and isinstance(a[1], (int, float)) and isinstance(b[1], (int, float)) \
            and not isinstance(a[1], bool) and not isinstance(b[1], bool):
        try:
            if name == 'Add':
                return const(a[1] + b[1])
            if name == 'Sub':
                return const(a[1] - b[1])
            if name == 'Mult':
                return const(a[1] * b[1])
            if name == 'Div':
                return const(a[1] / b[1])
        except Exception:
            pass
    return ('op', name, a, b)


@dataclass
class State:
    fields: dict = field(default_factory=dict)      # field -> term
    locals: dict = field(default_factory=dict)
    conds: tuple = ()
    written: dict = field(default_factory=dict)     # field -> list of statement texts (in order)
    calls: list = field(default_factory=list)       # external / self calls in order: (name, args)
    status: str = 'run'                             # run | return | raise
    retval: object = None
    events: list = field(default_factory=list)      # ordered ('write', field) / ('call', name)

    def copy(self):
        return State(dict(self.fields), dict(self.locals), self.conds, {k: list(v) for k, v in self.written.items()},
                     list(self.calls), self.status, self.retval, list(self.events))


class SymExec:
    def __init__(self, repo, index, cls_key):
        self.repo, self.ix, self.cls = repo, index, cls_key
        self.npaths = 0
        self._ntypes = None         # named tuple classes of the package (lazily collected)
        self._ntfields = {}         # tuple term -> field names, for named tuples built during the execution
        self.nonnull = self._nonnull_fields()

    def _nonnull_fields(self):
        """fields that are never assigned None (nor a parameter whose default is None) anywhere in the class"""
        maybe_none, seen = set(), set()
        for k in self.ix.mro(self.cls):
            for mname, m in self.ix.methods(k).items():
                none_params = set()
                a = m.args
                names = [x.arg for x in a.posonlyargs + a.args]
                for n, d in zip(names[len(names) - len(a.defaults):], a.defaults):
                    if isinstance(d, ast.Constant) and d.value is None:
                        none_params.add(n)
                for node in U.walk_no_nested(m):
                    if isinstance(node, ast.Assign):
                        for t in U.flat_targets(node):
                            c = U.chain(t)
                            if c and c[0] == 'self' and len(c) == 2:
                                seen.add(c[1])
                                v = node.value
                                if (isinstance(v, ast.Constant) and v.value is None) or (isinstance(v, ast.Name) and v.id in none_params) \
                                        or isinstance(v, (ast.Tuple, ast.Call, ast.IfExp)) and any(isinstance(x, ast.Constant) and x.value is None for x in ast.walk(v)):
                                    maybe_none.add(c[1])
        return seen - maybe_none

    # ------------------------------------------------------------------ expressions
    def ev(self, e, st: State, depth):
        if e is None:
            return NONE
        if isinstance(e, ast.Constant):
            return const(e.value)
        if isinstance(e, ast.Name):
            if e.id in st.locals:
                return st.locals[e.id]
            return ('free', e.id)
        if isinstance(e, ast.Attribute):
            c = U.chain(e)
            if c and c[0] == 'self' and len(c) == 2 and 'self' not in st.locals:
                f = c[1]
                if f in st.fields:
                    return st.fields[f]
                if self.ix.is_property(self.cls, f) and depth < MAX_DEPTH:
                    tgt = self.ix.lookup_method(self.cls, f)
                    if tgt:
                        outs = self.call_method(tgt[2], [], {}, st, depth + 1)
                        if len(outs) == 1:
                            st.fields, st.written, st.events = outs[0].fields, outs[0].written, outs[0].events
                            return outs[0].retval if outs[0].retval is not None else NONE
                        return ('prop', f)
                return ('old', f)
            base = self.ev(e.value, st, depth)
            names = self._ntfields.get(base) if base and base[0] == 'tuple' else None
            if names and e.attr in names:
                return base[1 + names.index(e.attr)]      # field of a named tuple built on this path
            return ('attr', base, e.attr)
        if isinstance(e, ast.Subscript):
            return ('sub', self.ev(e.value, st, depth), self.ev_slice(e.slice, st, depth))
        if isinstance(e, ast.UnaryOp):
            v = self.ev(e.operand, st, depth)
            if isinstance(e.op, ast.Not):
                t = self.truth(v)
                return const(not t) if t is not None else ('not', v)
            if isinstance(e.op, ast.USub):
                if v[0] == 'const' and isinstance(v[1], (int, float)):
                    return const(-v[1])
                return ('neg', v)
            return v
        if isinstance(e, ast.BinOp):
            return norm_op(type(e.op).__name__, self.ev(e.left, st, depth), self.ev(e.right, st, depth))
        if isinstance(e, ast.BoolOp):
            vals = [self.ev(v, st, depth) for v in e.values]
            ts = [self.truth(v) for v in vals]
            if isinstance(e.op, ast.And):
                if any(t is False for t in ts):
                    return const(False)
                if all(t is True for t in ts):
                    return vals[-1]
            else:
                if any(t is True for t in ts):
                    return const(True)
                if all(t is False for t in ts):
                    return vals[-1]
            return ('bool', type(e.op).__name__, tuple(vals))
        if isinstance(e, ast.Compare):
            left = self.ev(e.left, st, depth)
            if len(e.ops) == 1:
                right = self.ev(e.comparators[0], st, depth)
                op = e.ops[0]
                if isinstance(op, (ast.Is, ast.IsNot)) and right == NONE:
                    isn = self.is_none(left)
                    if isn is not None:
                        return const(isn if isinstance(op, ast.Is) else not isn)
                if isinstance(op, (ast.Is, ast.IsNot)) and left[0] == 'const' and right[0] == 'const' \
                        and (left[1] is None or isinstance(left[1], bool)) and (right[1] is None or isinstance(right[1], bool)):
                    same_ = left[1] is right[1]
                    return const(same_ if isinstance(op, ast.Is) else not same_)
                if isinstance(op, (ast.Eq, ast.NotEq)) and left[0] == 'const' and right[0] == 'const':
                    return const((left[1] == right[1]) if isinstance(op, ast.Eq) else (left[1] != right[1]))
                return ('cmp', type(op).__name__, left, right)
            return ('cmp*', U.src(e))
        if isinstance(e, ast.IfExp):
            c = self.ev(e.test, st, depth)
            t = self.truth(c)
            if t is True:
                return self.ev(e.body, st, depth)
            if t is False:
                return self.ev(e.orelse, st, depth)
            return ('ite', c, self.ev(e.body, st, depth), self.ev(e.orelse, st, depth))
        if isinstance(e, (ast.Tuple, ast.List)):
            return ('tuple',) + tuple(self.ev(x, st, depth) for x in e.elts)
        if isinstance(e, ast.Lambda):
            return ('lambda', U.src(e))
        if isinstance(e, ast.Call):
            return self.ev_call(e, st, depth)
        if isinstance(e, ast.Starred):
            return ('star', self.ev(e.value, st, depth))
        if isinstance(e, (ast.ListComp, ast.GeneratorExp, ast.DictComp, ast.SetComp, ast.Dict, ast.JoinedStr)):
            return ('expr', U.src(e))
        return ('expr', U.src(e))

    def ev_slice(self, s, st, depth):
        if isinstance(s, ast.Slice):
            return ('slice', self.ev(s.lower, st, depth), self.ev(s.upper, st, depth), self.ev(s.step, st, depth))
        if isinstance(s, ast.Tuple):
            return ('tuple',) + tuple(self.ev_slice(x, st, depth) for x in s.elts)
        return self.ev(s, st, depth)

    def is_none(self, v):
        if v == NONE:
            return True
        if v[0] == 'old' and v[1] in self.nonnull:
            return False
        if v[0] in ('const', 'op', 'tuple', 'lambda', 'call', 'new', 'saved'):
            return False if v != NONE else True
        return None

    def truth(self, v):
        if v[0] == 'const':
            return bool(v[1])
        if v[0] in ('tuple',):
            return len(v) > 1
        if v[0] in ('lambda', 'new'):
            return True
        return None

    def ev_call(self, e, st, depth):
        name = U.call_name(e) or '?'
        args = tuple(self.ev(a, st, depth) for a in e.args)
        kwargs = tuple(sorted((k.arg or '**', self.ev(k.value, st, depth)) for k in e.keywords))
        f = e.func
        # operator.gt(a, b) - directly or through a local bound to the function - is the comparison a > b
        opfn = None
        if isinstance(f, ast.Name) and f.id in st.locals and st.locals[f.id][0] == 'attr' and st.locals[f.id][1][0] == 'free' and self._is_operator_module(st.locals[f.id][1][1]):
            opfn = st.locals[f.id][2]
        elif isinstance(f, ast.Attribute) and isinstance(f.value, ast.Name) and f.value.id not in st.locals and self._is_operator_module(f.value.id):
            opfn = f.attr
        if opfn in _OPERATOR_CMP and len(args) == 2 and not kwargs:
            return ('cmp', _OPERATOR_CMP[opfn], args[0], args[1])
        if isinstance(f, ast.Name) and f.id not in st.locals:
            if self._ntypes is None:
                self._ntypes = U.namedtuple_types([m.tree for m in self.repo.modules.values()])
            flds = self._ntypes.get(f.id)
            if flds and not any(isinstance(a, ast.Starred) for a in e.args) and all(k.arg for k in e.keywords):
                kw = dict(kwargs)
                if len(args) + len(kw) == len(flds) and set(kw) == set(flds[len(args):]):
                    t = ('tuple',) + args + tuple(kw[n] for n in flds[len(args):])
                    if self._ntfields.setdefault(t, tuple(flds)) != tuple(flds):
                        self._ntfields[t] = ()
                    return t
        is_self = isinstance(f, ast.Attribute) and isinstance(f.value, ast.Name) and f.value.id == 'self' and 'self' not in st.locals
        is_super = isinstance(f, ast.Attribute) and isinstance(f.value, ast.Call) and isinstance(f.value.func, ast.Name) and f.value.func.id == 'super'
        if (is_self or is_super) and depth < MAX_DEPTH:
            tgt = None
            if is_self:
                tgt = self.ix.lookup_method(self.cls, f.attr)
            else:
                for k in self.ix.mro(self._cur_cls(st))[1:]:
                    m = self.ix.methods(k).get(f.attr)
                    if m is not None:
                        tgt = (k[0], f'{k[1]}.{f.attr}', m)
                        break
            if tgt is not None:
                st.events.append(('call', f.attr))
                outs = self.call_method(tgt[2], list(args), dict(kwargs), st, depth + 1, owner=tgt[1].split('.')[0])
                outs = [o for o in outs if o.status != 'raise']
                for o in outs:
                    o.events.append(('ret', f.attr))
                if len(outs) == 1:
                    o = outs[0]
                    st.fields, st.written, st.calls, st.events, st.conds = o.fields, o.written, o.calls, o.events, o.conds
                    return o.retval if o.retval is not None else NONE
                if len(outs) > 1:
                    # cannot continue a single state: signal forking to the statement level
                    raise _Fork(outs)
                body_ = U.core_body(tgt[2])
                if body_ and isinstance(body_[-1], ast.Raise) and 'NotImplemented' in U.src(body_[-1]) and not any(isinstance(n_, ast.Return) for n_ in ast.walk(tgt[2])) \
                        or (len(body_) == 1 and isinstance(body_[0], ast.Raise)):
                    # abstract method (raise NotImplementedError): the concrete override is unknown here -> opaque value
                    st.calls.append((name, args))
                    return ('call', name, args, kwargs)
                raise _Dead()
            if is_self:
                # function-valued field or unknown
                st.calls.append((name, args))
                st.events.append(('call', name))
                return ('call', name, args, kwargs)
        if isinstance(f, ast.Attribute) and U.chain(f) is not None and U.chain(f)[0] not in ('np', 'numpy', 'copy', 'math', 'sts', 'plt') \
                and not (isinstance(f.value, ast.Name) and f.value.id not in st.locals and f.value.id != 'self'):
            recv = self.ev(f.value, st, depth)
            name = '.' + f.attr
            args = (recv,) + args
        st.calls.append((name, args))
        st.events.append(('call', name))
        return ('call', name, args, kwargs)

    def _is_operator_module(self, name):
        """`name` is the standard `operator` module in the module of the class under analysis (import operator [as name])"""
        if name == 'operator':
            return True
        cache = getattr(self, '_opnames', None)
        if cache is None:
            cache = set()
            try:
                tree = self.repo.module(self.cls[0]).tree
                for st_ in tree.body:
                    if isinstance(st_, ast.Import):
                        for al in st_.names:
                            if al.name == 'operator':
                                cache.add(al.asname or 'operator')
            except Exception:
                pass
            self._opnames = cache
        return name in cache

    def _cur_cls(self, st):
        return st.locals.get('__class__', self.cls)

    # ------------------------------------------------------------------ methods
    def bind(self, func, args, kwargs):
        a = func.args
        names = [x.arg for x in a.posonlyargs + a.args]
        if names and names[0] in ('self', 'cls'):
            names = names[1:]
        defaults = list(a.defaults)
        dmap = {}
        for n, d in zip(names[len(names) - len(defaults):], defaults):
            dmap[n] = d
        loc = {}
        pos = list(args)
        # expand a starred tuple argument
        flat = []
        for v in pos:
            if v[0] == 'star' and v[1][0] == 'tuple':
                flat += list(v[1][1:])
            elif v[0] == 'star':
                flat.append(('unknown-star', v[1]))
            else:
                flat.append(v)
        for i, n in enumerate(names):
            if i < len(flat) and flat[i][0] != 'unknown-star':
                loc[n] = flat[i]
            elif n in kwargs:
                loc[n] = kwargs[n]
            elif n in dmap:
                loc[n] = self.ev(dmap[n], State(), 0)
            else:
                loc[n] = ('arg', n)
        if a.vararg:
            rest = flat[len(names):]
            if any(r[0] == 'unknown-star' for r in flat):
                loc[a.vararg.arg] = ('arg', '*' + a.vararg.arg)
            else:
                loc[a.vararg.arg] = ('tuple',) + tuple(rest)
        for ko, kd in zip(a.kwonlyargs, a.kw_defaults):
            loc[ko.arg] = kwargs.get(ko.arg, self.ev(kd, State(), 0) if kd is not None else ('arg', ko.arg))
        if a.kwarg:
            loc[a.kwarg.arg] = ('kwargs',)
        return loc

    def call_method(self, func, args, kwargs, st: State, depth, owner=None):
        inner = st.copy()
        inner.locals = self.bind(func, args, kwargs)
        if owner:
            for k in self.ix.mro(self.cls):
                if k[1] == owner:
                    inner.locals['__class__'] = k
        inner.status, inner.retval = 'run', None
        self._funcs = getattr(self, '_funcs', []) + [func]
        try:
            outs = self.block(U.body_without_docstring(func), [inner], depth)
        finally:
            self._funcs = self._funcs[:-1]
        res = []
        for o in outs:
            o2 = o
            if o2.status == 'return' or o2.status == 'run':
                o2.status = 'run'
            o2.locals = dict(st.locals)
            res.append(o2)
        return res

    def run(self, func, args=None, kwargs=None, fields=None, symbolic=True, events=None):
        """entry point: returns the list of final states (one per path).
        symbolic=True keeps every parameter that the caller did not bind as ('arg', name) (defaults ignored)"""
        st = State(fields=dict(fields or {}), events=list(events or []))
        loc = self.bind(func, args or [], kwargs or {})
        if symbolic:
            given = set((kwargs or {}).keys())
            a = func.args
            names = [x.arg for x in a.posonlyargs + a.args]
            if names and names[0] in ('self', 'cls'):
                names = names[1:]
            for i, n in enumerate(names):
                if i >= len(args or []) and n not in given:
                    loc[n] = ('arg', n)
            if a.vararg and not args:
                loc[a.vararg.arg] = ('arg', '*' + a.vararg.arg)
        st.locals = loc
        self._funcs = [func]
        try:
            outs = self.block(U.body_without_docstring(func), [st], 0)
        finally:
            self._funcs = []
        self.npaths += len(outs)
        return outs

    # ------------------------------------------------------------------ statements
    def block(self, stmts, states, depth):
        for s in stmts:
            nxt = []
            for st in states:
                if st.status != 'run':
                    nxt.append(st)
                    continue
                nxt += self.stmt(s, st, depth)
            states = nxt
            if len(states) > MAX_PATHS:
                raise AnalysisError('symbolic execution: too many paths')
        return states

    def stmt(self, s, st, depth):
        try:
            return self._stmt(s, st, depth)
        except _Fork as fk:
            # a call inside this statement forked: re-run the remaining effect of the statement is not possible in
            # general, so the statement's own store is applied opaquely on every forked state
            outs = []
            for o in fk.states:
                o.locals = st.locals
                o.status = 'run'
                for t in U.flat_targets(s) if isinstance(s, (ast.Assign, ast.AugAssign, ast.AnnAssign)) else []:
                    self.store(t, ('forked', U.src(s)), o, depth, s)
                outs.append(o)
            return outs
        except _Dead:
            st.status = 'raise'
            return [st]

    def _stmt(self, s, st, depth):
        if isinstance(s, ast.Assign) and isinstance(s.value, ast.IfExp) and isinstance(s.value.test, ast.Call):
            # x = A if self.method(..) else B  where the method has several outcomes: each outcome selects its arm
            try:
                self.ev(s.value.test, st.copy(), depth)
            except _Fork:
                as_if = ast.copy_location(ast.If(test=s.value.test,
                                                 body=[ast.copy_location(ast.Assign(targets=s.targets, value=s.value.body, lineno=s.lineno), s)],
                                                 orelse=[ast.copy_location(ast.Assign(targets=s.targets, value=s.value.orelse, lineno=s.lineno), s)]), s)
                return self._stmt(as_if, st, depth)
        if isinstance(s, ast.Assign) and isinstance(s.value, ast.IfExp):
            c = self.ev(s.value.test, st, depth)
            if self.truth(c) is None:
                a, b = st.copy(), st
                a.conds = a.conds + (('T', U.src(s.value.test)),)
                b.conds = b.conds + (('F', U.src(s.value.test)),)
                a.events.append(('cond', 'T', U.src(s.value.test)))
                b.events.append(('cond', 'F', U.src(s.value.test)))
                for stt, br in ((a, s.value.body), (b, s.value.orelse)):
                    v = self.ev(br, stt, depth)
                    for t in s.targets:
                        self.assign(t, v, stt, depth, s)
                return [a, b]
        if isinstance(s, ast.Assign):
            try:
                v = self.ev(s.value, st, depth)
            except _Fork as fk:
                if not isinstance(s.value, ast.Call):
                    raise
                outs = []
                for o in fk.states:
                    o.status = 'run'
                    rv = o.retval if o.retval is not None else NONE
                    o.retval = None
                    for t in s.targets:
                        self.assign(t, rv, o, depth, s)
                    outs.append(o)
                return outs
            for t in s.targets:
                self.assign(t, v, st, depth, s)
            return [st]
        if isinstance(s, ast.AnnAssign):
            if s.value is not None:
                self.assign(s.target, self.ev(s.value, st, depth), st, depth, s)
            return [st]
        if isinstance(s, ast.AugAssign):
            cur = self.ev(s.target, st, depth)
            v = norm_op(type(s.op).__name__, cur, self.ev(s.value, st, depth))
            if isinstance(s.target, ast.Subscript):
                self.store(s.target, v, st, depth, s)
            else:
                self.assign(s.target, v, st, depth, s)
            return [st]
        if isinstance(s, ast.Expr):
            try:
                self.ev(s.value, st, depth)
            except _Fork as fk:
                if not isinstance(s.value, ast.Call):
                    raise
                for o in fk.states:
                    o.status, o.retval = 'run', None
                return list(fk.states)
            return [st]
        if isinstance(s, ast.Return) and isinstance(s.value, ast.IfExp) and self.truth(self.ev(s.value.test, st.copy(), depth)) is None:
            a, b = st.copy(), st
            outs = []
            for stt, tv, br in ((a, 'T', s.value.body), (b, 'F', s.value.orelse)):
                stt.conds = stt.conds + ((tv, U.src(s.value.test)),)
                stt.events.append(('cond', tv, U.src(s.value.test)))
                outs += self._stmt(ast.copy_location(ast.Return(value=br), s), stt, depth)
            return outs
        if isinstance(s, ast.Return):
            try:
                st.retval = self.ev(s.value, st, depth) if s.value is not None else NONE
            except _Fork as fk:
                if not isinstance(s.value, ast.Call):
                    raise
                for o in fk.states:
                    o.status = 'return'
                    o.retval = o.retval if o.retval is not None else NONE
                return list(fk.states)
            st.status = 'return'
            return [st]
        if isinstance(s, ast.Raise):
            st.status = 'raise'
            return [st]
        if isinstance(s, ast.If):
            try:
                c = self.ev(s.test, st, depth)
            except _Fork as fk:
                # the test is a call of a method with several outcomes: every outcome continues into the branch its value selects
                if isinstance(s.test, ast.BoolOp) and len(s.test.values) >= 2:
                    # `if A and B: X else: Y`  ==  `if A: (if B: X else: Y) else: Y`   (short-circuit order kept; or: dually)
                    first, rest = s.test.values[0], s.test.values[1:]
                    rest_t = rest[0] if len(rest) == 1 else ast.copy_location(ast.BoolOp(op=s.test.op, values=rest), s.test)
                    inner = ast.copy_location(ast.If(test=rest_t, body=s.body, orelse=s.orelse), s)
                    if isinstance(s.test.op, ast.And):
                        outer = ast.copy_location(ast.If(test=first, body=[inner], orelse=s.orelse), s)
                    else:
                        outer = ast.copy_location(ast.If(test=first, body=s.body, orelse=[inner]), s)
                    return self._stmt(outer, st, depth)
                if isinstance(s.test, ast.UnaryOp) and isinstance(s.test.op, ast.Not):
                    return self._stmt(ast.copy_location(ast.If(test=s.test.operand, body=s.orelse or [ast.copy_location(ast.Pass(), s)], orelse=s.body), s), st, depth)
                if not isinstance(s.test, ast.Call):
                    raise
                outs = []
                for o in fk.states:
                    o.status = 'run'
                    rv = o.retval if o.retval is not None else NONE
                    o.retval = None
                    tr_ = self.truth(rv)
                    if tr_ is True:
                        outs += self.block(s.body, [o], depth)
                    elif tr_ is False:
                        outs += self.block(s.orelse, [o], depth)
                    else:
                        a, b = o.copy(), o
                        a.conds = a.conds + (('T', U.src(s.test)),)
                        b.conds = b.conds + (('F', U.src(s.test)),)
                        a.events.append(('cond', 'T', U.src(s.test)))
                        b.events.append(('cond', 'F', U.src(s.test)))
                        outs += self.block(s.body, [a], depth) + self.block(s.orelse, [b], depth)
                return outs
            t = self.truth(c)
            if t is None:
                t = self.recall(s.test, st)
            if t is True:
                return self.block(s.body, [st], depth)
            if t is False:
                return self.block(s.orelse, [st], depth)
            a, b = st.copy(), st
            a.conds = a.conds + (('T', U.src(s.test)),)
            b.conds = b.conds + (('F', U.src(s.test)),)
            a.events.append(('cond', 'T', U.src(s.test)))
            b.events.append(('cond', 'F', U.src(s.test)))
            # the decision as facts about symbolic terms (independent of how the test is spelled: through a local, negated, ...)
            a.events.extend(('fact', tv, t_) for tv, t_ in _facts(c, True))
            b.events.extend(('fact', tv, t_) for tv, t_ in _facts(c, False))
            if isinstance(s.test, ast.UnaryOp) and isinstance(s.test.op, ast.Not):
                # canonical form: the decision is also recorded for the un-negated test
                inner = U.src(s.test.operand)
                a.conds = a.conds + (('F', inner),)
                b.conds = b.conds + (('T', inner),)
                a.events.append(('cond', 'F', inner))
                b.events.append(('cond', 'T', inner))
            # (x or y) false => x false and y false ; (x and y) true => both true
            if isinstance(s.test, ast.BoolOp):
                for v_ in s.test.values:
                    if isinstance(s.test.op, ast.Or):
                        b.events.append(('cond', 'F', U.src(v_)))
                    else:
                        a.events.append(('cond', 'T', U.src(v_)))
            return self.block(s.body, [a], depth) + self.block(s.orelse, [b], depth)
        if isinstance(s, ast.For) and not s.orelse:
            elems = self._literal_elems(s.iter)
            if elems is None:
                # the iterable evaluates to a tuple/list term (a table passed as an argument or built locally)
                try:
                    tv = self.ev(s.iter, st, depth)
                except _Fork:
                    tv = None
                if isinstance(tv, tuple) and tv and tv[0] in ('tuple', 'list') and all(isinstance(x, tuple) for x in tv[1:]):
                    elems = [('__term__', x) for x in tv[1:]]
            if elems is not None and len(elems) <= 32:
                # a loop over a literal table is unrolled: table-driven dispatch is decided exactly
                states = [st]
                for e in elems:
                    nxt = []
                    for cur in states:
                        if cur.status != 'run':
                            nxt.append(cur)
                            continue
                        self.assign(s.target, e[1] if (isinstance(e, tuple) and e and e[0] == '__term__') else self.ev(e, cur, depth), cur, depth, s)
                        outs = self.block(s.body, [cur], depth)
                        for o in outs:
                            if o.status == 'continue':
                                o.status = 'run'
                        nxt += outs
                    states = nxt
                    if len(states) > MAX_PATHS:
                        raise AnalysisError('symbolic execution: too many paths')
                for o in states:
                    if o.status == 'break':
                        o.status = 'run'
                return states
        if isinstance(s, (ast.For, ast.While)):
            # havoc everything the loop may write (fields of self and locals)
            for n in ast.walk(s):
                if isinstance(n, (ast.Assign, ast.AugAssign, ast.AnnAssign)):
                    for t in U.flat_targets(n):
                        c = U.chain(t)
                        if c and c[0] == 'self' and len(c) >= 2:
                            st.fields[c[1]] = ('loop', U.src(n))
                            st.written.setdefault(c[1], []).append(U.src(n))
                            st.events.append(('write', c[1]))
                        elif isinstance(t, ast.Name):
                            st.locals[t.id] = ('loop', U.src(n))
                elif isinstance(n, ast.Call):
                    nm = U.call_name(n) or '?'
                    st.calls.append((nm, ()))
                    st.events.append(('call', nm.split('.')[-1] if nm.startswith('self.') else nm))
            if isinstance(s, ast.For):
                for nm in U.target_names(s.target):
                    st.locals[nm] = ('loopvar', nm)
            return [st]
        if isinstance(s, ast.With):
            return self.block(s.body, [st], depth)
        if isinstance(s, ast.Try):
            return self.block(s.body + s.orelse + s.finalbody, [st], depth)
        if isinstance(s, ast.Break):
            st.status = 'break'
            return [st]
        if isinstance(s, ast.Continue):
            st.status = 'continue'
            return [st]
        if isinstance(s, (ast.Pass, ast.Import, ast.ImportFrom, ast.Global, ast.Nonlocal, ast.Assert, ast.Delete,
                          ast.FunctionDef, ast.ClassDef)):
            return [st]
        raise AnalysisError(f'symbolic execution: statement {type(s).__name__} not supported')

    def _literal_elems(self, it):
        """element expressions of an iterable that is a literal tuple/list: written in place, or bound once to a local of
        the current function, a module-level name or a class-level attribute (self.X / Cls.X)"""
        if isinstance(it, (ast.Tuple, ast.List)) and not any(isinstance(e, ast.Starred) for e in it.elts):
            return list(it.elts)
        cands = []
        if isinstance(it, ast.Name):
            for fn in reversed(getattr(self, '_funcs', [])):
                hits = [n for n in ast.walk(fn) if isinstance(n, ast.Assign) and any(isinstance(t, ast.Name) and t.id == it.id for t in n.targets)]
                stores = [n for n in ast.walk(fn) if isinstance(n, ast.Name) and n.id == it.id and isinstance(n.ctx, ast.Store)]
                if hits or stores:
                    if len(hits) == 1 and len(stores) == 1:
                        cands = [hits[0].value]
                    else:
                        return None
                    break
            if not cands:
                try:
                    mod = self.repo.module(self.cls[0])
                    hits = [n for n in mod.tree.body if isinstance(n, ast.Assign) and any(isinstance(t, ast.Name) and t.id == it.id for t in n.targets)]
                    if len(hits) == 1:
                        cands = [hits[0].value]
                except Exception:
                    return None
        elif isinstance(it, ast.Attribute) and isinstance(it.value, ast.Name):
            for k in self.ix.mro(self.cls):
                try:
                    cnode = self.repo.cls(k[0], k[1])
                except Exception:
                    continue
                hits = [n for n in cnode.body if isinstance(n, ast.Assign) and any(isinstance(t, ast.Name) and t.id == it.attr for t in n.targets)]
                if hits:
                    if len(hits) == 1:
                        cands = [hits[0].value]
                    break
            # an instance attribute of the same name would shadow the class table
            if cands and any(isinstance(n, ast.Attribute) and n.attr == it.attr and isinstance(n.ctx, ast.Store) for m_ in self.repo.modules.values() for n in ast.walk(m_.tree)):
                return None
        if len(cands) == 1 and isinstance(cands[0], (ast.Tuple, ast.List)) and not any(isinstance(e, ast.Starred) for e in cands[0].elts):
            return list(cands[0].elts)
        return None

    def recall(self, test, st):
        """earlier decision for a textually identical test, provided no self-field mentioned in it was written since"""
        if isinstance(test, ast.UnaryOp) and isinstance(test.op, ast.Not):
            r = self.recall(test.operand, st)
            return None if r is None else (not r)
        text = U.src(test)
        flds = {U.chain(n)[1] for n in ast.walk(test) if isinstance(n, ast.Attribute) and U.chain(n) and U.chain(n)[0] == 'self' and len(U.chain(n)) >= 2}
        idx = None
        for i, e in enumerate(st.events):
            if e[0] == 'cond' and e[2] == text:
                idx = i
        if idx is None:
            return None
        for e in st.events[idx + 1:]:
            if e[0] == 'write' and e[1] in flds:
                return None
            if e[0] == 'write' and ('_' + e[1].lstrip('_')) in {('_' + f.lstrip('_')) for f in flds}:
                return None
        names = U.names_in(test) - {'self'}
        if names:
            return None        # depends on locals: do not reuse
        return st.events[idx][1] == 'T'

    def assign(self, t, v, st, depth, stmt):
        if isinstance(t, ast.Name):
            st.locals[t.id] = v
        elif isinstance(t, (ast.Tuple, ast.List)):
            for i, e in enumerate(t.elts):
                if v[0] == 'tuple' and len(v) - 1 == len(t.elts):
                    self.assign(e, v[i + 1], st, depth, stmt)
                else:
                    self.assign(e, ('item', v, i), st, depth, stmt)
        elif isinstance(t, ast.Attribute):
            c = U.chain(t)
            if c and c[0] == 'self' and len(c) == 2 and 'self' not in st.locals:
                f = c[1]
                setter = None
                for k in self.ix.mro(self.cls):
                    m = self.ix.methods(k).get(f + '.setter')
                    if m is not None:
                        setter = m
                        break
                if setter is not None and depth < MAX_DEPTH:
                    st.events.append(('call', f + '.setter'))
                    outs = [o for o in self.call_method(setter, [v], {}, st, depth + 1) if o.status != 'raise']
                    if len(outs) == 1:
                        o = outs[0]
                        st.fields, st.written, st.calls, st.events, st.conds = o.fields, o.written, o.calls, o.events, o.conds
                        return
                    if len(outs) > 1:
                        raise _Fork(outs)
                    raise _Dead()
                st.fields[f] = v
                st.written.setdefault(f, []).append(U.src(stmt))
                st.events.append(('write', f))
            else:
                self.store(t, v, st, depth, stmt)
        elif isinstance(t, ast.Subscript):
            self.store(t, v, st, depth, stmt)

    def store(self, t, v, st, depth, stmt):
        """in-place store through a subscript / attribute of something: the root field is marked modified"""
        c = U.chain(t)
        if c and c[0] == 'self' and len(c) >= 2 and 'self' not in st.locals:
            f = c[1]
            cur = st.fields.get(f, ('old', f))
            st.fields[f] = ('mut', cur, U.src(stmt))
            st.written.setdefault(f, []).append(U.src(stmt))
            st.events.append(('write', f))
        elif c and c[0] in st.locals:
            st.locals[c[0]] = ('mut', st.locals[c[0]], U.src(stmt))


_CMP_NEG = {'Gt': 'LtE', 'LtE': 'Gt', 'Lt': 'GtE', 'GtE': 'Lt', 'Eq': 'NotEq', 'NotEq': 'Eq', 'Is': 'IsNot', 'IsNot': 'Is'}
_CMP_SWAP = {'Gt': 'Lt', 'Lt': 'Gt', 'GtE': 'LtE', 'LtE': 'GtE', 'Eq': 'Eq', 'NotEq': 'NotEq'}


def _facts(term, value):
    """atomic facts implied by `term` evaluating to `value`: [(T/F, comparison term in the canonical orientation Gt/GtE/Eq/Is)]"""
    if term[0] == 'not':
        return _facts(term[1], not value)
    if term[0] == 'bool':
        if (term[1] == 'And') == value:          # (a and b) true / (a or b) false: every operand decided
            return [f for v in term[2] for f in _facts(v, value)]
        return []
    if term[0] == 'cmp':
        op, l, r = term[1], term[2], term[3]
        if op in ('Lt', 'LtE'):
            op, l, r = _CMP_SWAP[op], r, l
        if op in ('NotEq', 'IsNot'):
            op, value = _CMP_NEG[op], not value
        return [('T' if value else 'F', ('cmp', op, l, r))]
    return [('T' if value else 'F', term)]


def holds(events, op, l, r, start=0):
    """True when the facts recorded from position `start` on establish  l <op> r  (op in Gt, GtE, Lt, LtE)"""
    want = []
    if op in ('Lt', 'LtE'):
        op, l, r = _CMP_SWAP[op], r, l
    want.append(('T', ('cmp', op, l, r)))
    # l > r  <=>  not (r >= l) ;  l >= r  <=>  not (r > l)
    want.append(('F', ('cmp', 'GtE' if op == 'Gt' else 'Gt', r, l)))
    if op == 'GtE':
        want.append(('T', ('cmp', 'Gt', l, r)))
        want.append(('T', ('cmp', 'Eq', l, r)))
        want.append(('T', ('cmp', 'Eq', r, l)))
    return any(e[0] == 'fact' and (e[1], e[2]) in want for e in events[start:])


class _Fork(Exception):
    def __init__(self, states):
        self.states = states


_OPERATOR_CMP = {'gt': 'Gt', 'lt': 'Lt', 'ge': 'GtE', 'le': 'LtE', 'eq': 'Eq', 'ne': 'NotEq', '__gt__': 'Gt', '__lt__': 'Lt', '__ge__': 'GtE', '__le__': 'LtE'}


class _Dead(Exception):
    pass


def show(term, depth=0):
    """compact human-readable rendering of a term"""
    if not isinstance(term, tuple):
        return repr(term)
    k = term[0]
    if k == 'const':
        return repr(term[1])
    if k in ('old', 'arg', 'free', 'loopvar'):
        return f'{k}:{term[1]}'
    if k == 'op':
        sym = {'Add': '+', 'Sub': '-', 'Mult': '*', 'Div': '/', 'Pow': '**', 'FloorDiv': '//', 'Mod': '%'}.get(term[1], term[1])
        return f'({show(term[2])} {sym} {show(term[3])})'
    if k == 'call':
        return f'{term[1]}({", ".join(show(a) for a in term[2])}{"".join(", %s=%s" % (n, show(v)) for n, v in term[3])})'
    if k == 'sub':
        return f'{show(term[1])}[{show(term[2])}]'
    if k == 'slice':
        return ':'.join('' if x == NONE else show(x) for x in term[1:3])
    if k == 'tuple':
        return '(' + ', '.join(show(x) for x in term[1:]) + ')'
    if k == 'attr':
        return f'{show(term[1])}.{term[2]}'
    if k == 'mut':
        return f'mut({show(term[1])})'
    return str(term)[:80]
