"""Weight typing of the 6x6 / 6-vector (Voigt) forms of symmetric tensors.

A symmetric second-rank tensor stored as the 6 components (11, 22, 33, 23, 13, 12) and a fourth-rank tensor stored as the
6x6 matrix of its components lose the multiplicity of the off-diagonal components: in a double contraction A:B every shear
component occurs twice.  Writing W = diag(1,1,1,2,2,2):

    P(A:B) = P(A) W P(B)          P(T^-1) = W^-1 P(T)^-1 W^-1          a:b = P(a) . W P(b)

Every axis of a 6-array therefore carries one of two tags: 'p' (plain components) or 'w' (plain components times W).
A contraction (np.matmul / np.dot / @) is right exactly when the two contracted axes carry one 'p' and one 'w';
np.linalg.inv of a (p,p) matrix is the (w,w) form of the inverse; the conversions back to tensors need plain axes.
The checker evaluates these tags over the straight-line bodies of the functions that use the conversion helpers and
reports the expression where a contraction, a difference or a conversion meets the wrong tags."""
from __future__ import annotations
import ast
from . import astutil as U


class Unknown(Exception):
    pass


class Mismatch(Exception):
    def __init__(self, node, msg):
        self.node, self.msg = node, msg


TO_PLAIN_VEC = {'convert2rankToVec'}
TO_PLAIN_MAT = {'convert4To2rankTensor'}
NEED_PLAIN_VEC = {'convertVecTo2rankTensor'}
NEED_PLAIN_MAT = {'convert2To4rankTensor'}
SCALAR = ()          # tag tuple of a scalar / of an array that is not a Voigt form


class Tagger:
    def __init__(self, weight_names, field_tags=None):
        self.weights = set(weight_names)
        self.field_tags = field_tags or {}
        self.n_contractions = 0
        self.calls = []

    # -- helpers
    def _is_weight(self, e, env):
        if isinstance(e, ast.Name):
            return e.id in self.weights or env.get(e.id) == 'WEIGHT'
        if isinstance(e, ast.Attribute):
            return e.attr in self.weights
        return False

    def _is_outer_weight(self, e, env):
        return isinstance(e, ast.Call) and (U.call_name(e) or '') == 'np.outer' and len(e.args) == 2 and all(self._is_weight(a, env) for a in e.args)

    def function(self, f, param_tags=None):
        env = dict(param_tags or {})
        for st in U.body_without_docstring(f):
            self.stmt(st, env)
        return env

    def stmt(self, st, env):
        if isinstance(st, ast.Assign) and len(st.targets) == 1:
            t = st.targets[0]
            if isinstance(t, ast.Name):
                if self._is_weight(st.value, env):
                    env[t.id] = 'WEIGHT'
                else:
                    env[t.id] = self.expr(st.value, env)
            elif isinstance(t, ast.Tuple) and isinstance(st.value, ast.Tuple) and len(t.elts) == len(st.value.elts):
                for a, b in zip(t.elts, st.value.elts):
                    if isinstance(a, ast.Name):
                        env[a.id] = self.expr(b, env)
            else:
                self.expr(st.value, env)
        elif isinstance(st, ast.Return):
            if st.value is not None:
                env['__return__'] = self.expr(st.value, env)
        elif isinstance(st, ast.Expr):
            if not isinstance(st.value, ast.Constant):
                self.expr(st.value, env)
        elif isinstance(st, ast.If):
            for b in (st.body, st.orelse):
                e2 = dict(env)
                for s2 in b:
                    self.stmt(s2, e2)
                if '__return__' in e2:
                    env['__return__'] = e2['__return__']
        elif isinstance(st, (ast.AugAssign,)):
            self.expr(st.value, env)
        elif isinstance(st, (ast.For, ast.While)):
            if isinstance(st, ast.For):
                self.expr(st.iter, env)
            for s2 in st.body + st.orelse:
                self.stmt(s2, env)
        elif isinstance(st, (ast.Raise, ast.Pass, ast.Assert, ast.Break, ast.Continue, ast.Import, ast.ImportFrom)):
            return
        elif isinstance(st, ast.Assign):
            self.expr(st.value, env)
        else:
            raise Unknown(f'statement {type(st).__name__}')

    def expr(self, e, env):
        """tag tuple of the value: () for scalars / non-Voigt arrays, ('p',) / ('w',) for 6-vectors, (a, b) for 6x6"""
        if isinstance(e, ast.Constant):
            return SCALAR
        if isinstance(e, ast.Name):
            v = env.get(e.id, SCALAR)
            return SCALAR if v == 'WEIGHT' else v
        if isinstance(e, ast.Attribute):
            c = U.chain(e)
            if c and c[-1] in self.field_tags:
                return self.field_tags[c[-1]]
            if e.attr == 'T':
                t = self.expr(e.value, env)
                return tuple(reversed(t))
            return SCALAR
        if isinstance(e, ast.UnaryOp):
            return self.expr(e.operand, env)
        if isinstance(e, ast.Subscript):
            return SCALAR if self.expr(e.value, env) == SCALAR else SCALAR
        if isinstance(e, ast.BinOp):
            if isinstance(e.op, ast.MatMult):
                return self.contract(self.expr(e.left, env), self.expr(e.right, env), e)
            if isinstance(e.op, (ast.Mult, ast.Div)):
                for a, b in ((e.left, e.right), (e.right, e.left)):
                    if isinstance(e.op, ast.Div) and a is e.right:
                        continue        # only  x / w
                    if self._is_weight(b, env):
                        t = self.expr(a, env)
                        if t == SCALAR:
                            return SCALAR
                        # elementwise with the weight vector acts on the last axis (numpy broadcasting)
                        return t[:-1] + (self.shift(t[-1], isinstance(e.op, ast.Mult), e),)
                    if self._is_outer_weight(b, env):
                        t = self.expr(a, env)
                        if len(t) != 2:
                            raise Mismatch(e, 'outer(w, w) applied to something that is not a 6x6 form')
                        return tuple(self.shift(x, isinstance(e.op, ast.Mult), e) for x in t)
                l, r = self.expr(e.left, env), self.expr(e.right, env)
                if l == SCALAR:
                    return r
                if r == SCALAR:
                    return l
                raise Unknown('elementwise product of two Voigt forms')
            if isinstance(e.op, (ast.Add, ast.Sub)):
                l, r = self.expr(e.left, env), self.expr(e.right, env)
                if l == SCALAR or r == SCALAR:
                    if l != r and (isinstance(e.right, ast.Call) and (U.call_name(e.right) or '') in ('np.eye', 'np.identity')
                                   or isinstance(e.left, ast.Call) and (U.call_name(e.left) or '') in ('np.eye', 'np.identity')):
                        raise Mismatch(e, 'np.eye(6) is not the 6x6 form of the symmetric identity tensor (that is diag(1,1,1,1/2,1/2,1/2)): the shear rows of the difference are wrong')
                    return l if r == SCALAR else r
                if l != r:
                    raise Mismatch(e, f'sum of Voigt forms with different weights {l} and {r}')
                return l
            return SCALAR
        if isinstance(e, ast.Call):
            nm = U.call_name(e) or ''
            last = nm.split('.')[-1]
            if last in TO_PLAIN_VEC:
                return ('p',)
            if last in TO_PLAIN_MAT:
                return ('p', 'p')
            if last in NEED_PLAIN_VEC or last in NEED_PLAIN_MAT:
                t = self.expr(e.args[0], env)
                want = ('p',) if last in NEED_PLAIN_VEC else ('p', 'p')
                if t not in (want, SCALAR):
                    raise Mismatch(e, f'{last} receives a Voigt form with weights {t}: its components are the tensor components only for plain weights {want} '
                                      '(shear entries come out multiplied by 2 per weighted axis)')
                return SCALAR
            if nm in ('np.matmul', 'np.dot') and len(e.args) == 2:
                return self.contract(self.expr(e.args[0], env), self.expr(e.args[1], env), e)
            if nm == 'np.linalg.inv' and e.args:
                t = self.expr(e.args[0], env)
                if t == SCALAR:
                    return SCALAR
                if t == ('p', 'p'):
                    return ('w', 'w')        # inv(P(T)) = W P(T^-1) W
                if t == ('w', 'w'):
                    return ('p', 'p')
                raise Unknown(f'inverse of a 6x6 form with mixed weights {t}')
            if nm in ('np.eye', 'np.identity', 'np.zeros', 'np.ones', 'np.array', 'np.prod', 'np.sum', 'np.squeeze', 'float', 'np.outer', 'np.diag'):
                return SCALAR
            if nm in ('np.transpose',) and e.args:
                return tuple(reversed(self.expr(e.args[0], env)))
            # other calls: arguments are evaluated for their own contractions; the result is not a Voigt form
            tags = [self.expr(a, env) for a in e.args]
            if last and (nm.startswith('self.') or '.' not in nm):
                self.calls.append((last, tags))
            return SCALAR
        if isinstance(e, (ast.Tuple, ast.List)):
            for x in e.elts:
                self.expr(x, env)
            return SCALAR
        if isinstance(e, ast.IfExp):
            a, b = self.expr(e.body, env), self.expr(e.orelse, env)
            return a if a != SCALAR else b
        return SCALAR

    def shift(self, tag, multiply, node):
        if multiply:
            if tag == 'p':
                return 'w'
            raise Mismatch(node, 'a Voigt axis that already carries the shear weights is multiplied by them again')
        if tag == 'w':
            return 'p'
        raise Mismatch(node, 'a plain Voigt axis is divided by the shear weights')

    def contract(self, l, r, node):
        if l == SCALAR or r == SCALAR:
            return r if l == SCALAR else l
        self.n_contractions += 1
        a, b = l[-1], r[0]
        if {a, b} != {'p', 'w'}:
            what = 'neither operand carries the shear weights: every shear component enters the sum once instead of twice' if (a, b) == ('p', 'p') \
                else 'both operands carry the shear weights: every shear component enters the sum four times instead of twice'
            raise Mismatch(node, f'contraction of two Voigt forms over axes tagged ({a}, {b}): {what}')
        return l[:-1] + r[1:]
