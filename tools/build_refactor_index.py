#!/usr/bin/env python3
"""build_refactor_index.py <refactor dir>: from <dir>/matrix.json (written by refactor_matrix.py) builds
  <dir>/undecided.json  {refactoring: {property: [undecided messages]}}  - the refactorings a check could not decide (exit 2), and
  <dir>/index.json      {property: [refactorings touching one of its anchor files and decided silent]}  - the benign variants the
                        thorough tier replays as liveness tests of the rules (a false alarm there is an ANALYSIS-ERROR)."""
import sys, json, re, glob, os
sys.path.insert(0, '/verif')
from kverif.__main__ import anchor_files
root = sys.argv[1]
man = json.load(open('/verif/MANIFEST.json'))
props = [c['property_id'] for c in man['checks']]
mx = json.load(open(root + '/matrix.json'))
und = {}
for rid, row in mx.items():
    for p, r in row.items():
        if isinstance(r, dict) and r.get('exit') == 2:
            und.setdefault(rid, {})[p] = r.get('undecided', [])
        elif isinstance(r, dict) and r.get('exit') == 1:
            print('FALSE ALARM (not indexed):', rid, p, r.get('violations', [])[:1])
            und.setdefault(rid, {})[p] = ['FALSE ALARM'] + r.get('violations', [])
idx = {}
for d in sorted(glob.glob(root + '/C*-r*')):
    rid = os.path.basename(d)
    files = set(re.findall(r'^\+\+\+ b/(\S+)', open(d + '/patch.diff').read(), flags=re.M))
    for p in props:
        if files & set(anchor_files(p)) and p not in und.get(rid, {}):
            idx.setdefault(p, []).append(rid)
json.dump(idx, open(root + '/index.json', 'w'), indent=1)
json.dump(und, open(root + '/undecided.json', 'w'), indent=1)
print('undecided:', {k: list(v) for k, v in und.items()})
print('indexed:', {p: len(v) for p, v in sorted(idx.items())})
