#!/bin/bash
# copies finished refactorings from /tmp/rf/Cxx/out into /verif/seeded/refactor/Cxx-rN/{patch.diff,meta.json}
mkdir -p /verif/seeded/refactor
for d in /tmp/rf/C*/out; do
  pid=$(basename $(dirname $d))
  for f in $d/r*.diff; do
    [ -f "$f" ] || continue
    r=$(basename $f .diff)
    t=/verif/seeded/refactor/$pid-$r
    mkdir -p $t
    cp $f $t/patch.diff
    [ -f $d/${r}_meta.json ] && cp $d/${r}_meta.json $t/meta.json
  done
done
ls /verif/seeded/refactor | wc -l
