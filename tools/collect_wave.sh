#!/bin/bash
# collect_wave.sh <workdir> <dest> <prefix r|m> : copies finished sub-agent outputs  <workdir>/Cxx/out/<prefix>N.diff (+ _meta.json, _demo.py)
# into <dest>/Cxx-<prefix>N/{patch.diff,meta.json,demo.py}
W=$1; D=$2; P=$3
mkdir -p $D
for d in $W/C*/out; do
  pid=$(basename $(dirname $d))
  for f in $d/${P}[0-9].diff; do
    [ -f "$f" ] || continue
    r=$(basename $f .diff)
    t=$D/$pid-$r
    mkdir -p $t
    cp $f $t/patch.diff
    [ -f $d/${r}_meta.json ] && cp $d/${r}_meta.json $t/meta.json
    [ -f $d/${r}_demo.py ] && cp $d/${r}_demo.py $t/demo.py
  done
done
ls -d $D/C*-${P}* | wc -l
