#!/usr/bin/env python3
"""Freezes the names of the reference tree: per module the module-level names, and per function (qualified name) its
parameter and local names.  kverif/normalise.py uses the table to tell which helpers, constants and locals are *new*
relative to the tree the rules were confirmed on; only new ones are inlined / forward-substituted before the rules run.
Run once on the reference tree (/repo HEAD with the fix: commits) and commit the result; never at check time."""
import json, os, subprocess, sys
sys.path.insert(0, '/verif')
os.environ['KVERIF_NONORM'] = '1'
from kverif.source import Repo
from kverif import normalise

repo = Repo('/repo')
assert subprocess.run(['git', '-C', '/repo', 'diff', '--quiet']).returncode == 0, '/repo is dirty'
commit = subprocess.run(['git', '-C', '/repo', 'rev-parse', '--short', 'HEAD'], capture_output=True, text=True).stdout.strip()
table = {'commit': commit, 'modules': {}}
for path, mod in sorted(repo.modules.items()):
    table['modules'][path] = normalise.names_of_module(mod.tree)
json.dump(table, open('/verif/kverif/baseline_names.json', 'w'), indent=0, sort_keys=True)
print(commit, len(table['modules']), 'modules', sum(len(m['funcs']) for m in table['modules'].values()), 'functions')
