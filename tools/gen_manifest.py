#!/usr/bin/env python3
"""Regenerates /verif/MANIFEST.json from the table below (kept in one place so that it stays consistent)."""
import json, os, subprocess
V = os.path.dirname(os.path.dirname(os.path.abspath(__file__)))
PY = 'python3-vt'

CLAIMS = {
 'C05': dict(cat='proof', tech='abstract interpretation over a finite order domain (exhaustive NaN/inf/ordering scenarios) + typestate over the loop-body CFG',
   text='Decides the step/clock/stop protocol of the generic solver on all paths: the dt clamp is interpreted for every ordering scenario of (proposal, lower, upper) incl. NaN, +-inf, zero, negative and lower>upper; the loop body of DESolver.solve is checked as a typestate (upper bound limited to remaining time, one iterator call, one clock update by the returned dt, one postProcess defining stop); built-in iterators return the dt unmodified; unflatten cursors advance by exactly what they read and the Coupler records sizes on every flatten. From these the time contract follows over the reals for every model.',
   note='Real arithmetic for the clock (floating-point exactness of the last step and termination with minDtFrac=0 are not decided); user-supplied iterators and shape preservation beyond the cursor rule are not decided; trusted: Python ast, kverif engines.', ref='4/C05'),
 'C06': dict(cat='proof', tech='symbolic extraction of the Butcher tableau from the AST + exact rational order conditions; alias/purity analysis',
   text='The Butcher tableau (c, A, b) of each built-in iterator is extracted from its source by abstract interpretation over polynomial forms and the order conditions up to the nominal order (Euler 1, RK4 4: 8 conditions), the row-sum consistency c_i = sum_j a_ij (needed exactly for time-dependent right-hand sides) and the documented stage times are discharged with exact rationals; by the order-condition theorem this decides the order of accuracy for all smooth problems. The wrapper _updateX is shown to be x + F(dxdt)*dt and no iterator writes through an alias of the state it was given.',
   note='Trusted: order-condition theorem for Runge-Kutta methods, sympy rational arithmetic, Python ast; the model\'s own getdXdt/correctdXdt are outside the clause; user iterators are not covered.', ref='4/C06'),
}

NOT_APPLICABLE = {
 'C10': 'Every clause is a numerical statement about matrices produced by compiled pycalphad models (finite-difference agreement, definiteness, eigenvalues, Darken relation); no sound static argument in reach bounds them, and the few shape facts are already pinned by the test suite.',
}
PENDING = 'check for this property is being built in this session and is not yet registered (static rules are designed in DESIGN.md section 4)'
ALL = [f'C{i:02d}' for i in range(1, 21)]


def main():
    checks = []
    for pid in ALL:
        c = CLAIMS.get(pid)
        if not c:
            continue
        checks.append({
            'property_id': pid,
            'quick_cmd': f'{PY} -m kverif check {pid} --tier quick',
            'thorough_cmd': f'{PY} -m kverif check {pid} --tier thorough',
            'evidence_file': f'/verif/evidence/{pid}.json',
            'replay_cmd_template': f'{PY} -m kverif replay {{path}}',
            'engine': 'kverif',
            'level_claimed': {'category': c['cat'], 'text': c['text'], 'design_ref': f'DESIGN.md section {c["ref"]}'},
            'level_note': c['note'],
            'technique': 'static analysis: ' + c['tech'],
        })
    na = []
    for pid in ALL:
        if pid in CLAIMS:
            continue
        na.append({'property_id': pid, 'reason': NOT_APPLICABLE.get(pid, PENDING)})
    fixes = subprocess.run(['git', '-C', '/repo', 'log', '--format=%h %s', '--grep=^fix:'], capture_output=True, text=True).stdout.strip().splitlines()
    man = {
        'version': 1,
        'setup_cmd': f'{PY} -m kverif selfcheck',
        'hooks': {
            'guard': 'KAWIN_VERIF',
            'enable': 'none needed: static analysis instruments nothing; checks parse /repo/kawin/**/*.py of the current working tree on every run',
            'baseline_off_cmd': 'cd /repo && /venv/bin/python -m pytest -ra -q -p no:cacheprovider --timeout=900 --continue-on-collection-errors',
            'source_commits': [],
            'add_only': True,
        },
        'engines': [{'name': 'kverif', 'path': '/verif/kverif', 'serves_properties': sorted(CLAIMS),
                     'kind_free_text': 'repository-specific static analysis on Python ASTs: CFG + dataflow/typestate, class-hierarchy call resolution, may-alias/purity, order-domain abstract interpretation, formula extraction to sympy normal forms'}],
        'checks': checks,
        'not_applicable': na,
        'notes': 'Technique family: static analysis only; no check imports or runs kawin. Exit codes: 0 holds, 1 VIOLATION, 2 ANALYSIS-ERROR (undecided: anchor vanished or code left the idiom tables). '
                 'Genuine defects repaired in /repo by unguarded fix: commits (see known_findings.json "fixed"): ' + '; '.join(fixes),
    }
    with open(os.path.join(V, 'MANIFEST.json'), 'w') as fh:
        json.dump(man, fh, indent=1)
    print('MANIFEST.json written:', len(checks), 'checks,', len(na), 'not_applicable')


if __name__ == '__main__':
    main()
