#!/usr/bin/env python3
"""Regenerates /verif/MANIFEST.json from the table below (kept in one place so that it stays consistent)."""
import json, os, subprocess
V = os.path.dirname(os.path.dirname(os.path.abspath(__file__)))
PY = 'python3-vt'

def C(cat, tech, text, note, ref):
    return dict(cat=cat, tech=tech, text=text, note=note, ref=ref)


STRUCT = ('Decides structural necessary conditions of the property on every path of the anchored code (for every input, schedule '
          'and history); the numeric/trajectory clauses listed in DESIGN.md section 4 are NOT decided by this check. The tree is first '
          'normalised (new helpers inlined, new locals/constants substituted where that is an equivalence - DESIGN.md 16.1) and every '
          'resolved call site of the anchored files is checked for arguments passed in the position of another parameter (T-ARGROLE); '
          'every memo field that is new relative to the reference tree must be cleared by every method that changes one of its inputs '
          'and must not keep a view of an argument as its key (T-MEMO, DESIGN.md 12.3). ')

CLAIMS = {
 'C01': C('other', 'formula/factor extraction with local inlining, dominator analysis, ownership with view-alias tracking, must-precede dataflow',
   STRUCT + 'Here: the mass balance the statement spells out is what the code encodes - one prefactor Vm_a/Vm_b(p)*volumeFactor(p) on the volume fraction and every precipitate-content term, third moments of the argument distribution, face-averaged precipitate composition weights, x = (x0 - sum fconc)/(1 - sum fv), no return bypassing the balance, no other writer of the balance slots (also through views), and recompute-then-append-then-update order in postProcess.',
   'The trajectory invariant itself (equality at every recorded step) is not decided; trusted: Python ast, kverif engines, C08 R8.1 for the moment functions.', '4/C01'),
 'C02': C('other', 'moment-table matching, collecting semantics over loop-body CFGs (must-write on every exit), symbolic field-state execution',
   STRUCT + 'Here: density/mean radius/volume fraction are assigned from the moments of the stated order of the distribution passed in, the re-used record is completely rewritten on every path (empty phase, early exits of the nucleation routine), truncation precedes recording, nuclei enter one class of a telescoping upwind stencil, the grid is extended whenever the last class fills, and the class removals applied before and after agree.',
   'Equality of histories and moments along a run and the dissolution bound are not decided.', '4/C02'),
 'C03': C('other', 'table agreement, ownership, definite assignment over a statement CFG (whole package), null-flow with branch facts, must-precede dataflow, contradiction rule on None tests of never-None dictionaries',
   STRUCT + 'Here: one attribute table drives creation/append/slice/save/load of all histories, nothing outside PrecipitationData rebinds a history, every local is definitely assigned on every path of every function (763), every use of a may-return-None backend result is guarded, volume-fraction stores are bounded, the growth array follows the size-class grid, and the solver clock contract (C05) holds.',
   'Finiteness and ranges of recorded values for all configurations are not decided; Surrogate.py is outside the null-flow rule (correlated branches).', '4/C03'),
 'C04': C('other', 'slice typing of the flux form, boundary-table matching, symbolic execution of setup() under the is-setup flag, ownership',
   STRUCT + 'Here: the rate is the negative first difference of one face array over a constant cell width (telescoping identity), end faces are written last from the boundary table by element name, setup() writes and records nothing once the model is set up (no drift over repeated solve calls), compositions are clipped before recording, and model constructors share no mutable defaults.',
   'The conserved sums in floating point and the homogenization flux-frame numerics are not decided.', '4/C04'),
 'C05': C('proof', 'abstract interpretation over a finite order domain (exhaustive NaN/inf/ordering scenarios) + typestate over the loop-body CFG, loop-exit completeness (no exit besides end time / stop), container-type preservation of the default unflatten, running-sum cursor idiom',
   'Decides the step/clock/stop protocol of the generic solver on all paths: the dt clamp is interpreted for every ordering scenario of (proposal, lower, upper) incl. NaN, +-inf, zero, negative and lower>upper; the loop body of DESolver.solve is checked as a typestate (upper bound limited to remaining time, one iterator call, one clock update by the returned dt, one postProcess defining stop); built-in iterators return the dt unmodified; unflatten cursors advance by exactly what they read and the Coupler records sizes on every flatten. From these the time contract follows over the reals for every model.',
   'Real arithmetic for the clock (floating-point exactness of the last step and termination with minDtFrac=0 are not decided); user-supplied iterators and shape preservation beyond the cursor rule are not decided; trusted: Python ast, kverif engines.', '4/C05'),
 'C06': C('proof', 'symbolic extraction of the Butcher tableau from the AST + exact rational order conditions; alias/purity analysis with opaque callables',
   'The Butcher tableau (c, A, b) of each built-in iterator is extracted from its source by abstract interpretation over polynomial forms and the order conditions up to the nominal order (Euler 1, RK4 4: 8 conditions), the row-sum consistency c_i = sum_j a_ij (needed exactly for time-dependent right-hand sides) and the documented stage times are discharged with exact rationals; by the order-condition theorem this decides the order of accuracy for all smooth problems. Every wrapper between iterator and model forwards the stage time, _updateX is x + F(dxdt)*dt, flattening copies, and no iterator writes through an alias of the state or of what the callback returned.',
   "Trusted: order-condition theorem for Runge-Kutta methods, sympy rational arithmetic, Python ast; user iterators are not covered.", '4/C06'),
 'C07': C('other', 'slice typing of vectorised stencils (telescoping first difference, upwind alignment, limiter table), formula matching, purity',
   STRUCT + 'Here: both transport functions return F[:-1]-F[1:] of one freshly zeroed face array plus nucRate in the class containing the nucleation radius (sum telescopes exactly), each face term couples growth, population and sign mask of the same slice, the limiter clamps all bins+1 faces by -/+psd/dt, and the step limit is ratio*width/max|growth| over populated classes above the dissolution index.',
   'Non-negativity for all step sizes and dynamic ranges is a numeric consequence, not decided; a rewrite as explicit loops is reported as undecided.', '4/C07'),
 'C08': C('other', 'symbolic field-state execution of every grid-writing method (all paths), structural comparison of final terms, order-domain evaluation of np.pad widths, ownership and ordering of the backup snapshot',
   STRUCT + 'Here: on exit of every grid operation, for every entry state, centres are midpoints of the final boundaries and boundaries/min/max/bins agree; extend is prefix preserving; re-mesh multiplies the interpolated distribution by old/new third moment and nothing else; adaptive adjustment ends at minBins/maxBins or below the maximum; reset restores the originals; *FromN moments depend only on their argument; a loaded grid is rebuilt from the saved scalars.',
   'Strict monotonicity of boundaries, exactness of the rescaled moment in floating point and minBins<=maxBins are not decided.', '4/C08'),
 'C09': C('other', 'interprocedural may-alias/purity analysis with numpy view tables, symbolic execution of the cache switch, key/argument agreement, must-pass-through',
   STRUCT + 'Here: no query writes through an alias of its array arguments (33 parameter instances through all kawin callees), the cache can be switched off (lookup/insert executed symbolically for both flag values), lookups and inserts use the same key function and the same (x,T), supplied composition sets are refreshed and cached samples reused only at equal temperature, every driving-force method passes the removeCache reset, batching at T[0] is taken only on the branch a whole-array equality predicate selects for a uniform array (test tabulated, no tolerance test) and the per-point results keep the input order; no mutable default argument is shared between instances.',
   'Equality of returned values across query histories (pycalphad internals) is not decided.', '4/C09'),
 'C11': C('other', 'order-type system (alphabetical vs user order) at all argsort sites, loop equivariance analysis with liveness, closure-capture rule',
   STRUCT + 'Here: every alphabetical (pycalphad) value is converted with argsort(argsort(elements[slice])) before it is returned, stored or combined with a user-ordered value, matrices on both axes; every loop over phases/coupled models writes only at the loop index, into iteration-local temporaries or through commutative reductions; no closure captures a loop variable; boundary conditions are addressed by element name.',
   'Numerical equality of paired runs is not decided.', '4/C11'),
 'C12': C('other', 'formula extraction from five functions to sympy and exact identity checking; call-site agreement; quantity-kind typing; path analysis of the nucleation loop against a frozen table of exits; guard tabulation of the batched interfacial-composition query',
   'Decides only the growth-law/critical-radius chain: growth = (mc/R)(dG - g), g(R) = Vm(E_el + 2f*gamma/R), dG_v = dG_chem/Vm - E_el, Rcrit = 2f*gamma/dG_v and the call-site bindings are extracted and the identity growth(Rcrit) = 0 with positive slope is checked exactly (residual -E_el*Vm: known finding F18; exact for E_el = 0); binary lookup uses the same Gibbs-Thomson function; aspect ratios and radii reach the right level of the shape API; sample cache is temperature guarded; a computed barrier is recorded on every path of the phase loop except the listed exit; interfacial compositions of an array are batched only for a uniform temperature and returned in input order.',
   'All clauses comparing two equilibrium calculations (solvus = zero of the driving force, monotonicity in g, sentinel, agreement of the four methods) are not decided.', '4/C12'),
 'C13': C('other', 'symbolic execution of constructor vs setter (path-wise equality), typestate of the refresh rule, evaluation-site def-use, sibling agreement',
   STRUCT + 'Here: constructor and setter of TemperatureParameters leave the same flag/parameters on every argument shape, the three setters set the isothermal flag, the accumulated temperature change is incremented before the test and (rebuild <=> reset) on every path with the current temperature, the accumulator is zeroed nowhere else without a full rebuild, every stored temperature is the schedule at the time stored in the same record (time written => temperature written), both schedule classes interpolate t/3600.',
   'Closeness of tabulated compositions to an independent evaluation is not decided.', '4/C13'),
 'C14': C('other', 'cache-freshness by symbolic execution of all methods (caches discovered from lazy-property idiom), exact sympy identities on extracted formulas incl. sibling agreement of the barrier at a clamped radius, mask structure, index agreement of per-phase moments, shared-state rule (T-SHARED), one-sided comparison agreement between the factor evaluator and the ratio validator (contradiction rule) and between the sign tests of the driving force',
   STRUCT + 'Here: every lazily cached factor is None after any write of gamma/gbEnergy/site type; area - 2k*removed - 3*volume == 0, the k=0 limits and the reduction of Rcrit/Gcrit to the classical values are exact identities of the extracted formulas; outputs are zero-initialised and written only under the positive-driving-force / non-zero masks; occupied sites are summed over all phases of the same site type and returned through max(.,0).',
   'Finiteness, monotonicity in dG and k and the incubation factor range are not decided. F25 (boundary-site barrier negative at a radius raised to the minimum radius) is a recorded known finding: its one-line repair changes a value pinned by an existing test.', '4/C14'),
 'C15': C('other', 'alias/purity analysis, exact sympy identities and one-sided limits on extracted closed forms, constant folding of the wrapper mask at the literal probe point (two-site rule), dtype rule (result buffers and *_like allocations), derived-state rule, mode-flag must-assign analysis (T-MODEFLAG), path analysis of the bisection loop',
   STRUCT + 'Here: no factor function writes into its aspect-ratio/radius argument; unit volume and axis ratio of the semi-axes, the sphere limits of needle/plate factors and continuity at aspect ratio 1 (value used below 1 == limit of the shape formula) are exact; result buffers are float; ShapeFactor keeps no value derived from a previous description; the bisection for the critical radius starts on the whole interval [RcritSphere, Rmax], moves exactly one end to the midpoint per iteration and recomputes the midpoint.',
   'Agreement with quadrature of area/capacitance integrals, monotonicity and the bisection tolerance are not decided.', '4/C15'),
 'C16': C('other', 'derived-state freshness by symbolic execution, literal evaluation of quadrature tables with exact trigonometry, exact replay of modulus conversions, non-commutative operator normal forms, tensor-index bookkeeping of the rotations, degree-of-homogeneity inference for the Eshelby integral, weight typing of the 6x6 (Voigt) forms, shared class-level state rule (T-SHARED)',
   STRUCT + 'Here: the rotated tensors are recomputed after every write of a rotation/stiffness (order independence); quadrature weights sum to 1 with the orbit multiplicities, point counts are the documented ones and the closed A-orbits are the octahedral orbits, the C-orbit generator/table contract holds (known finding F21: it does not); all 15 modulus conversions reproduce (E,nu,G); Voigt maps are inverse tables; fourth-rank and 6x6 energy routines are the same operator expression; Dijkl is homogeneous of degree 0 in the radii (every sum adds terms of equal degree); every contraction of 6x6 / 6-vector forms pairs a plain axis with a shear-weighted one (necessary for the 6x6 = fourth-rank clause and for the homogeneous-inclusion limit).',
   'Positivity, rotation invariance and closed forms are not decided (of the scaling laws only the degree of homogeneity of the Eshelby integral is). F21 (Lebedev orbits) is a recorded known finding: its repair changes values pinned by 3 existing tests.', '4/C16'),
 'C17': C('other', 'taint rule for phase addressing, must-analysis of the fallback to the database phase list, guarded position lookups (T-NAMEINDEX), symmetric-axis rule, dispatch tables decided by symbolic execution, must-pass-through of post-processing on the loop-body CFG, formula shape with the phase sum as opaque linear operator, purity, argument purity of the post-process functions (cached record), index-space agreement of argmax over masked selections',
   STRUCT + 'Here: rows of the per-stable-phase arrays are never selected by a position in the database phase list and the stable phase names travel with the arrays; averaging rules consume the phase axis only by reductions; keyword/id/function registries are total and map to namesakes; Wiener/labyrinth/Hashin-Shtrikman have the stated form with the sum taken before the non-linear map; averaging rules do not write into the cached arrays.',
   'Ordering of the bounds and their values are not decided.', '4/C17'),
 'C18': C('other', 'sibling sanitising rule, symbolic execution of history growth, must-precede and must-pass-through dataflow on the CFG (solve before every normal exit), formula/prefactor agreement, purity',
   STRUCT + 'Here: weak/strong/Orowan arrays pass the same negative|non-finite mask; each strength history grows by exactly one entry per host step on every path and the host updates coupled models once per step after its record; grain growth is solved over exactly the host step; strength = M*min(weak,strong,Orowan) without rescaling its arguments; Zener drag carries the growth-law prefactor and freezes the band.',
   'Positivity/monotonicity of the individual formulas and grain-volume conservation are not decided.', '4/C18'),
 'C19': C('other', 'attribute-protocol check against the class hierarchy, symbolic execution of the latch, product of the or/and fold (transfer function tabulated over a finite domain) with the specification automaton, class-specialised method views, path rule for the interpolated crossing time, table rules, solver typestate, no replacement of the interpolated time under tolerance tests (symbolic paths)',
   'The stopping protocol is shape and is decided on all paths: every attribute a condition reads exists on the host, a met condition is never re-evaluated and its time is written with the transition only (exact interpolation formula, stored only on paths where the condition was tested at the previous step and not met), every registered condition is polled on every step and the stop flag equals (any or-condition met) or (some and-condition and all of them met) for registries of every length (reachable states of the fold explored in product with the specification automaton), each condition reads the history of its name with the selection it was given, the solver ends on the returned flag, the TTP calculator resets before every run.',
   'That the interpolated crossing time lies inside the step is numeric and not decided.', '4/C19'),
 'C20': C('other', 'delegation/forwarding agreement, save/load key-table agreement per class (super chain and class-level tables resolved), row-preservation dataflow from the stored training data to the kernel, symbolic column-interval agreement of the curvature pack/unpack layout, symbolic execution of toDict under present/absent recordings, must-analysis of key presence on the CFG, JSON/ndarray type agreement of the refit path, argument-normalisation rule of the getters, protocol check',
   STRUCT + 'Here: every untrained surrogate getter returns its namesake on the thermodynamics object with all its own parameters, internal delegations forward the phase selection; save and load agree on their key tables for precipitation, diffusion, surrogate and strength models; recordings are saved exactly when they exist and None is never saved; every thermodynamics method the precipitation model calls exists on all four thermodynamics/surrogate classes.',
   'Exact reproduction of array contents and interpolation at training points are not decided.', '4/C20'),
}

NOT_APPLICABLE = {
 'C10': 'Every clause is a numerical statement about matrices produced by compiled pycalphad models (finite-difference agreement, definiteness, eigenvalues, Darken relation); no sound static argument in reach bounds them, and the few shape facts are already pinned by the test suite.',
}
PENDING = 'check for this property is being built in this session and is not yet registered (static rules are designed in DESIGN.md section 4)'
ALL = [f'C{i:02d}' for i in range(1, 21)]


def main():
    checks = []
    for pid in ALL:
        c = CLAIMS.get(pid)
        if not c:
            continue
        checks.append({
            'property_id': pid,
            'quick_cmd': f'{PY} -m kverif check {pid} --tier quick',
            'thorough_cmd': f'{PY} -m kverif check {pid} --tier thorough',
            'evidence_file': f'/verif/evidence/{pid}.json',
            'replay_cmd_template': f'{PY} -m kverif replay {{path}}',
            'engine': 'kverif',
            'level_claimed': {'category': c['cat'], 'text': c['text'], 'design_ref': f'DESIGN.md section {c["ref"]}'},
            'level_note': c['note'],
            'technique': 'static analysis: ' + c['tech'] + '; writer/invalidator, may-alias and proxy-key def-use completeness analysis of new memo fields (T-MEMO)',
        })
    na = []
    for pid in ALL:
        if pid in CLAIMS:
            continue
        na.append({'property_id': pid, 'reason': NOT_APPLICABLE.get(pid, PENDING)})
    fixes = subprocess.run(['git', '-C', '/repo', 'log', '--format=%h %s', '--grep=^fix:'], capture_output=True, text=True).stdout.strip().splitlines()
    man = {
        'version': 1,
        'setup_cmd': f'{PY} -m kverif selfcheck',
        'hooks': {
            'guard': 'KAWIN_VERIF',
            'enable': 'none needed: static analysis instruments nothing; checks parse /repo/kawin/**/*.py of the current working tree on every run',
            'baseline_off_cmd': 'cd /repo && /venv/bin/python -m pytest -ra -q -p no:cacheprovider --timeout=900 --continue-on-collection-errors',
            'source_commits': [],
            'add_only': True,
        },
        'engines': [{'name': 'kverif', 'path': '/verif/kverif', 'serves_properties': sorted(CLAIMS),
                     'kind_free_text': 'repository-specific static analysis on Python ASTs: CFG + dataflow/typestate, class-hierarchy call resolution, may-alias/purity, order-domain abstract interpretation, formula extraction to sympy normal forms'}],
        'checks': checks,
        'not_applicable': na,
        'notes': 'Technique family: static analysis only; no check imports or runs kawin. Exit codes: 0 holds, 1 VIOLATION, 2 ANALYSIS-ERROR (undecided: anchor vanished or code left the idiom tables). '
                 'Genuine defects repaired in /repo by unguarded fix: commits (see known_findings.json "fixed"): ' + '; '.join(fixes),
    }
    with open(os.path.join(V, 'MANIFEST.json'), 'w') as fh:
        json.dump(man, fh, indent=1)
    print('MANIFEST.json written:', len(checks), 'checks,', len(na), 'not_applicable')


if __name__ == '__main__':
    main()
