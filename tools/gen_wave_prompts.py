#!/usr/bin/env python3
"""writes sub-agent prompts for a wave of seeded changes: gen_wave_prompts.py <kind: refactor|break> <workdir> [n]
Each prompt contains only the property (its text and the code anchors that are part of it), the scratch worktree and the
task; nothing about /verif's machinery."""
import json, sys, os
kind, work = sys.argv[1], sys.argv[2]
n = int(sys.argv[3]) if len(sys.argv) > 3 else (3 if kind == 'refactor' else 2)
extra = open(sys.argv[4]).read().strip() if len(sys.argv) > 4 else ''
os.makedirs(work, exist_ok=True)
for line in open('/verif/properties.jsonl'):
    d = json.loads(line)
    pid = d['id']
    if pid == 'C10':
        continue
    wt = f'{work}/{pid}'
    a = d['anchors']
    mech = '\n'.join(f"  - {m['name']} ({m['where']})" for m in a.get('mechanism', []))
    head = f"""Work ONLY inside the scratch git worktree {wt} (a checkout of the Python package `kawin`). Never touch /repo, /verif or any other directory, never commit anything, and do not use `git stash` (stashes are shared between worktrees).

Environment: Python is /venv/bin/python (kawin is installed there in editable mode pointing at a DIFFERENT directory, so ALWAYS run with the worktree on PYTHONPATH: `cd {wt} && PYTHONPATH={wt} /venv/bin/python -m pytest -q -p no:cacheprovider --timeout=900` runs the 97-test suite in about 45 s; all tests pass on the unchanged tree). No network.

A semantic property of kawin:

{pid}: {d['title']}
{d['statement']}
(Quantified over: {d['quantifier']['text']})

The code that implements it lives mainly in: {', '.join(a['files'])}
Mechanisms:
{mech}
"""
    if kind == 'refactor':
        task = f"""You are helping to evaluate a static-analysis tool for false alarms. Your task: produce {n} independent, BEHAVIOUR-PRESERVING refactorings (r1..r{n}; each applied on its own to the unchanged tree) of the code that implements this property - the kind of restructuring a maintainer does during a clean-up sprint. Each must keep the observable behaviour of kawin EXACTLY the same for every input (so the property still holds) and must keep all 97 tests passing. This is a second round: go beyond local renames. Prefer STRUCTURAL refactorings of the functions named above, and make the {n} different in kind, for example: split a long method into two or three private methods that pass data by arguments and return values; move a block into a helper of another class or a module-level function; merge two near-duplicate methods behind one parametrised private helper; turn an index loop into enumerate/zip (or the reverse) and rename its variables; replace nested if/else by guard clauses or a small dispatch; hoist loop-invariant work; introduce a local alias for a long attribute path (e.g. `pbm = self.PBM[p]`) and use it throughout; change `x += y` to `x = x + y` where no alias exists; swap the branches of an if by negating the condition; replace a lambda by a named nested function or a bound method; cache a repeated pure sub-expression in a local; reorder independent statements; convert positional to keyword arguments; replace a literal by a named constant (module or class level); rewrite a comprehension as a loop; split a tuple assignment. Do NOT change numerical results, the order of floating-point operations that affect results, public API names, or semantics on any input (including NaN/inf/empty inputs, and exceptions raised). Each refactoring should change roughly 15-80 lines.

For each write into {wt}/out/: r1.diff .. r{n}.diff (produced with `git diff` against the unchanged HEAD; must apply with `git apply` from the worktree root) and r1_meta.json ..: {{"property": "{pid}", "summary": "...what was refactored...", "why_behaviour_preserving": "...", "files_touched": [...], "tests_passed_with_change": 97}}.
Verify yourself for each: the package imports, and the full test suite reports 97 passed with the refactoring applied; where practical also compare outputs of the touched functions before/after on a few inputs. When finished restore the worktree (`git -C {wt} checkout -- .`), leaving only the untracked out/ directory. Reply with a short summary of the refactorings."""
    else:
        task = f"""You are helping to evaluate how well a verification tool detects regressions. Your task: produce {n} independent, REALISTIC BREAKING changes (m1..m{n}; each applied on its own to the unchanged tree): the kind of mistake a maintainer could plausibly make in a refactoring, optimisation, clean-up or feature commit. Each change must (1) make kawin violate the property above for at least some inputs/configurations/histories, (2) still import and keep ALL 97 existing tests passing, (3) look innocent in review (no obviously absurd code), and (4) be different in kind from the others: different function, different clause of the property, different mechanism (for example: a boundary case or comparison flipped, an update moved before/after the statement it depends on, a cache or flag not invalidated/reset on one path, an in-place operation on an aliased array, an index or axis or slice off by one, a branch of an if/else handled asymmetrically, an argument passed in the wrong order or with the wrong unit, a default changed, state shared between instances, a value clamped at the wrong stage, a loop that silently skips the last item, a helper extracted with one argument swapped). Avoid changes that only affect printing, plotting or error messages.

For each change write into {wt}/out/: m1.diff .. (produced with `git diff` against the unchanged HEAD; must apply with `git apply` from the worktree root), m1_demo.py .. - a self-contained script that exercises kawin's public API (small synthetic models/inputs; the thermodynamic database files used by the tests are under kawin/tests/ if you need them; keep the run under 2 minutes) and exits 0 when the property holds and 1 when it is violated: it must exit 0 on the unchanged tree and 1 with the change applied - and m1_meta.json ..: {{"property": "{pid}", "summary": "...what was changed and why it breaks the property...", "needs_to_manifest": "...which inputs/configurations expose it...", "files_touched": [...], "tests_passed_with_change": 97}}.
Verify yourself for each: demo exits 0 unchanged / 1 changed (run as `cd {wt} && PYTHONPATH={wt} /venv/bin/python out/m1_demo.py`), and the full test suite reports 97 passed with the change applied. When finished restore the worktree (`git -C {wt} checkout -- .`), leaving only the untracked out/ directory. Reply with a short summary of the changes."""
    with open(f'{work}/prompt_{pid}.txt', 'w') as fh:
        fh.write(head + '\n' + task + ('\n\nAdditional guidance for this round: ' + extra if extra else ''))
print('written to', work)
