#!/usr/bin/env python3
"""debug: apply a patch to /repo, print the normaliser log and the normalised text of the functions it touched, undo"""
import sys, subprocess, ast
sys.path.insert(0, '/verif')
import os
patch = os.path.abspath(sys.argv[1])
subprocess.run(['git', '-C', '/repo', 'apply', patch], check=True)
try:
    from kverif.source import Repo
    r = Repo('/repo')
    touched = set()
    for l in r.norm_log:
        print(l)
        if '::' in l:
            a = l.split()[1].rstrip(':')
            touched.add(tuple(a.split('::')))
    if '-v' in sys.argv:
        for path, qual in sorted(touched):
            try:
                f = r.func(path, qual)
                print('-' * 30, path, qual)
                print(ast.unparse(f))
            except Exception as e:
                print('??', path, qual, e)
finally:
    subprocess.run(['git', '-C', '/repo', 'checkout', '--', '.'], check=True)
