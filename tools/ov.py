#!/usr/bin/env python3
"""ov.py <seeded-subdir/id> <prop...>: applies the stored patch through the in-memory overlay (the /repo tree is not touched) and
prints the verdict of the given quick checks"""
import sys, os
sys.path.insert(0, '/verif')
os.environ['KVERIF_NOWRITE'] = '1'
from kverif.__main__ import run_property
from kverif import report
from kverif.selftest import apply_unified_diff
from kverif.source import Repo
os.environ['KVERIF_NONORM'] = '1'
base = Repo('/repo')
del os.environ['KVERIF_NONORM']
texts = {p: m.text for p, m in base.modules.items()}
new = apply_unified_diff(texts, open(f'/verif/seeded/{sys.argv[1]}/patch.diff').read())
assert new is not None, 'patch does not apply'
for pid in sys.argv[2:]:
    code, c = run_property(pid, 'quick', '/repo', overlay=new, write=False, quiet=True)
    print(pid, 'exit', code)
    for f in c.by(report.VIOLATION):
        print('  violation', f.rule, f.loc(), '-', f.what[:300])
    for f in c.by(report.UNDECIDED):
        print('  undecided', f.rule, f.loc(), '-', f.what[:300])
