#!/usr/bin/env python3
"""False-alarm measurement: applies every behaviour-preserving refactoring under <dir> (default /verif/seeded/refactor)
to /repo, runs every registered quick check in-process without writing evidence, reverts, and records every check that
did not exit 0.  Writes <dir>/matrix.json.  /repo must be clean."""
import json, os, subprocess, sys, glob, time
sys.path.insert(0, '/verif')
from kverif.__main__ import run_property
from kverif import report

root = sys.argv[1] if len(sys.argv) > 1 else '/verif/seeded/refactor'
man = json.load(open('/verif/MANIFEST.json'))
props = [c['property_id'] for c in man['checks']]
assert subprocess.run(['git', '-C', '/repo', 'diff', '--quiet']).returncode == 0, '/repo is dirty'
matrix = {}
for d in sorted(glob.glob(os.path.join(root, 'C*-r*'))):
    rid = os.path.basename(d)
    r = subprocess.run(['git', '-C', '/repo', 'apply', os.path.join(d, 'patch.diff')], capture_output=True, text=True)
    if r.returncode != 0:
        matrix[rid] = {'error': 'patch does not apply: ' + r.stderr[:200]}
        print(rid, 'DOES NOT APPLY')
        continue
    try:
        row = {}
        for p in props:
            code, ctx = run_property(p, 'quick', None, write=False, quiet=True)
            if code != 0:
                known = report.load_known()
                viol = [f'{f.rule} {f.loc()} {f.what[:140]}' for f in ctx.by(report.VIOLATION) if not report.is_known(f, p, known)]
                und = [f'{f.rule} {f.loc()} {f.what[:140]}' for f in ctx.by(report.UNDECIDED)]
                row[p] = {'exit': code, 'violations': viol, 'undecided': und}
        matrix[rid] = row
    finally:
        subprocess.run(['git', '-C', '/repo', 'checkout', '--', '.'], check=True)
    print(rid, 'silent' if not row else json.dumps(row)[:600], flush=True)
json.dump(matrix, open(os.path.join(root, 'matrix.json'), 'w'), indent=1)
n = len(matrix); noisy = sum(1 for v in matrix.values() if v)
print(f'{n} refactorings: {n - noisy} silent in all {len(props)} checks, {noisy} raised an alarm or an analysis error')
