#!/usr/bin/env python3
"""False-alarm measurement: applies every behaviour-preserving refactoring under <dir> (default /verif/seeded/refactor)
through the in-memory overlay (the /repo working tree is not touched; the diff applier is verified against `git apply`),
runs every registered quick check without writing evidence, and records every check that did not exit 0.
Writes <dir>/matrix.json.  usage: refactor_matrix.py [dir] [jobs]"""
import json, os, sys, glob
from multiprocessing import Pool
sys.path.insert(0, os.environ.get('KVERIF_HOME', '/verif'))

root = sys.argv[1] if len(sys.argv) > 1 else '/verif/seeded/refactor'
jobs = int(sys.argv[2]) if len(sys.argv) > 2 else 12
man = json.load(open('/verif/MANIFEST.json'))
props = [c['property_id'] for c in man['checks']]


def one(d):
    from kverif.selftest import apply_unified_diff
    from kverif.source import Repo
    from kverif.__main__ import run_property
    from kverif import report
    os.environ['KVERIF_NONORM'] = '1'
    r = Repo('/repo')
    del os.environ['KVERIF_NONORM']
    texts = {p: m.text for p, m in r.modules.items()}
    rid = os.path.basename(d)
    new = apply_unified_diff(texts, open(os.path.join(d, 'patch.diff')).read())
    if new is None:
        return rid, {'error': 'patch does not apply'}
    row = {}
    for p in props:
        code, ctx = run_property(p, 'quick', '/repo', overlay=new, write=False, quiet=True)
        if code != 0:
            known = report.load_known()
            viol = [f'{f.rule} {f.loc()} {f.what[:140]}' for f in ctx.by(report.VIOLATION) if not report.is_known(f, p, known)]
            und = [f'{f.rule} {f.loc()} {f.what[:140]}' for f in ctx.by(report.UNDECIDED)]
            row[p] = {'exit': code, 'violations': viol, 'undecided': und}
    return rid, row


if __name__ == '__main__':
    dirs = sorted(glob.glob(os.path.join(root, 'C*-r*')))
    matrix = {}
    with Pool(jobs) as pool:
        for rid, row in pool.imap_unordered(one, dirs):
            matrix[rid] = row
            print(rid, 'silent' if not row else json.dumps(row)[:600], flush=True)
    json.dump(dict(sorted(matrix.items())), open(os.path.join(root, 'matrix.json'), 'w'), indent=1)
    n = len(matrix)
    noisy = sum(1 for v in matrix.values() if v)
    print(f'{n} refactorings: {n - noisy} silent in all {len(props)} checks, {noisy} raised an alarm or an analysis error')
