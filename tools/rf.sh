#!/bin/bash
# rf.sh <Cxx-rN> <prop...> : apply refactoring, run given quick checks, undo
d=/verif/seeded/${RFD:-refactor}/$1; shift
git -C /repo apply $d/patch.diff || exit 3
for p in "$@"; do (cd /verif && KVERIF_NOWRITE=1 python3-vt -m kverif check $p --tier quick 2>&1 | grep -E "VIOLATION|UNDECIDED|ANALYSIS|violation|undecided|Traceback|Error" | cut -c1-400 | head -${RFN:-12}); done
git -C /repo checkout -- .
