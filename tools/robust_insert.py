#!/usr/bin/env python3
"""robust_insert.py [template ...]: robustness of the checks to statements that change nothing.

For each template (a statement or small block with no effect on any value of the program) the statement is inserted as the first
statement of EVERY function of the package - through the in-memory overlay, /repo is not touched - and every registered quick check
is run.  The property holds on every such tree, so a violation is a false alarm of the machinery and an exit 2 is a construct an
engine does not read.  Prints, per template, the checks that did not exit 0 (known findings filtered by the checks themselves).
Used while building (DESIGN.md 16.6); it is not part of any registered command."""
import sys, os, ast, json
sys.path.insert(0,'/verif'); os.environ['KVERIF_NOWRITE']='1'
from kverif.__main__ import run_property
from kverif import report
from kverif.source import Repo
os.environ['KVERIF_NONORM']='1'; base=Repo('/repo'); del os.environ['KVERIF_NONORM']
TEMPLATES = {
 'with': "with open(os.devnull) as _kvf:\n    pass",
 'try': "try:\n    pass\nexcept Exception:\n    raise",
 'assert': "assert True",
 'del': "_kvd = None\ndel _kvd",
 'comp': "_kvc = [i for i in ()]",
 'whileelse': "while False:\n    pass\nelse:\n    pass",
 'annot': "_kva: int = 0",
 'walrus': "(_kvw := 0)",
 'match': "match 0:\n    case _:\n        pass",
 'lambda': "_kvl = lambda: None",
 'tryfinally': "try:\n    pass\nfinally:\n    pass",
 'nested': "def _kvn():\n    return None",
 'print': "print('debug')",
 'iffalse': "if False:\n    raise ValueError('unreachable')",
 'import': "import warnings",
 'strlocal': "_kvlog = 'entering'",
 'warn': "import warnings\nwarnings.warn('note')",
 'validate': "if self is None:\n    raise ValueError('no object')",
}
props = [c['property_id'] for c in json.load(open('/verif/MANIFEST.json'))['checks']]
only = sys.argv[1:] or list(TEMPLATES)
for name in only:
    tmpl = TEMPLATES[name]
    new = {}
    for p, m in base.modules.items():
        if '/tests/' in p:
            continue
        lines = m.text.split('\n')
        tree = ast.parse(m.text)
        ins = []
        for n in ast.walk(tree):
            if isinstance(n, ast.FunctionDef) and n.body:
                first = n.body[0]
                if isinstance(first, ast.Expr) and isinstance(first.value, ast.Constant) and isinstance(first.value.value, str):
                    if len(n.body) < 2:
                        continue
                    first = n.body[1]
                # skip one-line defs
                if first.lineno == n.lineno:
                    continue
                ins.append((first.lineno, first.col_offset))
        for ln, col in sorted(ins, reverse=True):
            block = [' ' * col + l for l in tmpl.split('\n')]
            lines[ln - 1:ln - 1] = block
        t = '\n'.join(lines)
        try:
            ast.parse(t)
        except SyntaxError as e:
            print(name, p, 'SYNTAX', e); t = m.text
        if name == 'with' and 'import os' not in t:
            t = 'import os\n' + t
        new[p] = t
    bad = []
    for pid in props:
        try:
            code, c = run_property(pid, 'quick', '/repo', overlay=new, write=False, quiet=True)
        except Exception as e:
            bad.append((pid, 'CRASH', repr(e)[:120])); continue
        if code != 0:
            v = [f.rule + ' ' + f.what[:90] for f in c.by(report.VIOLATION)][:2]
            u = [f.rule + ' ' + f.what[:90] for f in c.by(report.UNDECIDED)][:2]
            bad.append((pid, code, v, u))
    print('TEMPLATE', name, 'non-zero:', len(bad), flush=True)
    for b in bad:
        print('   ', b, flush=True)
