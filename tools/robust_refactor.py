#!/usr/bin/env python3
"""robust_refactor.py hints|retvar|both|rename: mechanical behaviour-preserving refactorings applied to EVERY function of the package
(through the overlay; files are re-generated with ast.unparse, so comments and layout go as well) followed by all quick checks:
  hints   every unannotated parameter and return gets an annotation
  retvar  every `return <expr>` becomes `_kvret = <expr>; return _kvret`
  rename  every local variable (parameters aside) is renamed (suffix _v)
The properties hold on every such tree: any non-zero exit is a false alarm or an unread construct.  DESIGN.md 16.6."""
import sys, os, ast, json, copy
sys.path.insert(0,'/verif'); os.environ['KVERIF_NOWRITE']='1'
from kverif.__main__ import run_property
from kverif import report
from kverif.source import Repo
os.environ['KVERIF_NONORM']='1'; base=Repo('/repo'); del os.environ['KVERIF_NONORM']
mode = sys.argv[1]
class T(ast.NodeTransformer):
    def visit_FunctionDef(self, node):
        self.generic_visit(node)
        if mode in ('hints', 'both'):
            for a in node.args.posonlyargs + node.args.args + node.args.kwonlyargs:
                if a.annotation is None and a.arg not in ('self', 'cls'):
                    a.annotation = ast.Constant(value='object')
            if node.returns is None:
                node.returns = ast.Constant(value='object')
        if mode in ('retvar', 'both'):
            node.body = self.block(node.body)
        return node
    def block(self, stmts):
        out = []
        for st in stmts:
            for fld in ('body', 'orelse', 'finalbody'):
                sub = getattr(st, fld, None)
                if isinstance(sub, list) and sub and isinstance(sub[0], ast.stmt) and not isinstance(st, (ast.FunctionDef, ast.ClassDef)):
                    setattr(st, fld, self.block(sub))
            for h in getattr(st, 'handlers', None) or []:
                h.body = self.block(h.body)
            if isinstance(st, ast.Return) and st.value is not None and not isinstance(st.value, (ast.Name, ast.Constant)):
                out.append(ast.copy_location(ast.Assign(targets=[ast.Name(id='_kvret', ctx=ast.Store())], value=st.value, lineno=st.lineno), st))
                out.append(ast.copy_location(ast.Return(value=ast.Name(id='_kvret', ctx=ast.Load())), st))
            else:
                out.append(st)
        return out
def rename_locals(tree):
    def handle(func):
        params = set()
        globs = set()
        for n in ast.walk(func):
            if isinstance(n, ast.arg):
                params.add(n.arg)
            if isinstance(n, (ast.Global, ast.Nonlocal)):
                globs |= set(n.names)
        stored = {n.id for n in ast.walk(func) if isinstance(n, ast.Name) and isinstance(n.ctx, (ast.Store, ast.Del))}
        stored |= {n.name for n in ast.walk(func) if isinstance(n, ast.FunctionDef) and n is not func}
        loc = stored - params - globs
        for n in ast.walk(func):
            if isinstance(n, ast.Name) and n.id in loc:
                n.id = n.id + '_v'
            if isinstance(n, ast.FunctionDef) and n is not func and n.name in loc:
                n.name = n.name + '_v'
    def top(body):
        for st in body:
            if isinstance(st, ast.FunctionDef):
                handle(st)
            elif isinstance(st, ast.ClassDef):
                top(st.body)
    top(tree.body)
    return tree

new = {}
for p, m in base.modules.items():
    if '/tests/' in p: continue
    tree = ast.parse(m.text)
    tree = rename_locals(tree) if mode == 'rename' else T().visit(tree); ast.fix_missing_locations(tree)
    new[p] = ast.unparse(tree)
    ast.parse(new[p])
props = [c['property_id'] for c in json.load(open('/verif/MANIFEST.json'))['checks']]
def one(pid):
    code, c = run_property(pid, 'quick', '/repo', overlay=new, write=False, quiet=True)
    known = report.load_known()
    v = [f.rule + ' ' + f.loc() + ' ' + f.what[:110] for f in c.by(report.VIOLATION) if not report.is_known(f, pid, known)][:3]
    u = [f.rule + ' ' + f.loc() + ' ' + f.what[:110] for f in c.by(report.UNDECIDED)][:3]
    return pid, code, v, u
from multiprocessing import Pool
with Pool(7) as pool:
    for pid, code, v, u in pool.map(one, props):
        if code != 0: print(mode, pid, code, v, u, flush=True)
print(mode, 'done')
