#!/bin/bash
# usage: tools/run_all.sh quick|thorough  - runs every registered check, prints exit codes, validates the evidence files
TIER=${1:-quick}
cd /verif
fail=0
for id in $(python3 -c "import json; print(' '.join(c['property_id'] for c in json.load(open('MANIFEST.json'))['checks']))"); do
  s=$(date +%s.%N)
  python3-vt -m kverif check $id --tier $TIER > /tmp/kverif_$id.log 2>&1; rc=$?
  e=$(date +%s.%N)
  printf "%s %s rc=%s %.1fs  %s\n" $id $TIER $rc $(echo "$e - $s" | bc) "$(grep -c KNOWN-FINDING /tmp/kverif_$id.log) known; $(tail -1 /tmp/kverif_$id.log | cut -c1-110)"
  [ $rc -ne 0 ] && fail=1
done
python3-vt - <<'PY'
import json, jsonschema, glob
sch=json.load(open('/root/.vp/EVIDENCE.schema.json'))
bad=0
for f in sorted(glob.glob('/verif/evidence/C*.json')):
    try:
        jsonschema.validate(json.load(open(f)), sch)
    except Exception as e:
        bad+=1; print('INVALID', f, str(e)[:200])
print('evidence files valid' if not bad else f'{bad} invalid evidence files')
PY
exit $fail
