#!/usr/bin/env python3
"""Applies every seeded change under /verif/seeded to /repo (git apply), runs every registered quick check in-process
without writing evidence, reverts the change (git checkout -- .) and records which checks reported a violation.
Writes /verif/seeded/matrix.json.  /repo must be clean."""
import json, os, subprocess, sys, glob, time
sys.path.insert(0, '/verif')
from kverif.__main__ import run_property
from kverif import report

man = json.load(open('/verif/MANIFEST.json'))
props = [c['property_id'] for c in man['checks']]
assert subprocess.run(['git', '-C', '/repo', 'diff', '--quiet']).returncode == 0, '/repo is dirty'
matrix = {}
t0 = time.time()
for d in sorted(glob.glob('/verif/seeded/C*-m*')):
    sid = os.path.basename(d)
    target = sid.split('-')[0]
    r = subprocess.run(['git', '-C', '/repo', 'apply', os.path.join(d, 'patch.diff')], capture_output=True, text=True)
    if r.returncode != 0:
        matrix[sid] = {'error': 'patch does not apply: ' + r.stderr[:200]}
        continue
    try:
        row = {}
        for p in props:
            code, ctx = run_property(p, 'quick', None, write=False, quiet=True)
            if code != 0:
                known = report.load_known()
                rules = sorted({f.rule for f in ctx.by(report.VIOLATION) if not report.is_known(f, p, known)})
                row[p] = {'exit': code, 'rules': rules}
        matrix[sid] = {'target_property': target, 'detected_by_target': row.get(target, {}).get('exit') == 1,
                       'detected_by': {p: v['rules'] for p, v in row.items() if v['exit'] == 1},
                       'undecided_in': sorted(p for p, v in row.items() if v['exit'] == 2)}
    finally:
        subprocess.run(['git', '-C', '/repo', 'checkout', '--', '.'], check=True)
    print(sid, 'target', 'HIT' if matrix[sid]['detected_by_target'] else 'miss', '| all:', {p: v for p, v in matrix[sid]['detected_by'].items()}, '| exit2:', matrix[sid]['undecided_in'], flush=True)
json.dump({'base_commit': subprocess.run(['git', '-C', '/repo', 'rev-parse', '--short', 'HEAD'], capture_output=True, text=True).stdout.strip(),
           'checks': props, 'matrix': matrix}, open('/verif/seeded/matrix.json', 'w'), indent=1)
n = len(matrix); hit = sum(1 for v in matrix.values() if v.get('detected_by_target')); anyhit = sum(1 for v in matrix.values() if v.get('detected_by'))
print(f'{n} seeded changes: {hit} reported by the check of their own property, {anyhit} by at least one check; {time.time() - t0:.0f}s')
