#!/usr/bin/env python3
"""seed_measure.py <dir> [out.json] [ids...]: for every seeded breaking change <dir>/Cxx-mN/patch.diff, applies it through the
in-memory overlay (the /repo working tree is not touched) and runs every registered quick check; prints which checks
report it.  Writes <dir>/matrix.json (or out.json)."""
import json, sys, os, glob
sys.path.insert(0, os.environ.get('KVERIF_HOME', '/verif'))
from kverif.selftest import apply_unified_diff
from kverif.source import Repo
from kverif.__main__ import run_property
from kverif import report

root = sys.argv[1]
outp = sys.argv[2] if len(sys.argv) > 2 else os.path.join(root, 'matrix.json')
only = set(sys.argv[3:])
r = Repo('/repo')
texts = {p: m.text for p, m in r.modules.items()}
man = json.load(open('/verif/MANIFEST.json'))
props = [c['property_id'] for c in man['checks']]
out = {}


def one(d):
    sid = os.path.basename(d)
    new = apply_unified_diff(texts, open(d + '/patch.diff').read())
    if new is None:
        return sid, {'error': 'patch does not apply'}
    row = {}
    for p in props:
        code, ctx = run_property(p, 'quick', '/repo', overlay=new, write=False, quiet=True)
        if code != 0:
            known = report.load_known()
            row[p] = {'exit': code, 'rules': sorted({f.rule for f in ctx.by(report.VIOLATION) if not report.is_known(f, p, known)}),
                      'undecided': [f.what[:100] for f in ctx.by(report.UNDECIDED)][:2]}
    return sid, row


from multiprocessing import Pool
dirs = [d for d in sorted(glob.glob(os.path.join(root, 'C*-m*'))) if not only or os.path.basename(d) in only]
with Pool(14) as pool:
    for sid, row in pool.imap_unordered(one, dirs):
        out[sid] = row
        own = row.get(sid[:3], {})
        print(sid, 'OWN-HIT' if own.get('exit') == 1 else ('own-undecided' if own.get('exit') == 2 else 'MISS'), {p: (v['exit'], v['rules']) for p, v in row.items() if isinstance(v, dict)}, flush=True)
out = dict(sorted(out.items()))
if os.path.exists(outp) and only:
    old = json.load(open(outp)); old.update(out); out = old
json.dump(out, open(outp, 'w'), indent=1, sort_keys=True)
n = len(out)
hit = sum(1 for s, row in out.items() if row.get(s[:3], {}).get('exit') == 1)
anyhit = sum(1 for s, row in out.items() if any(isinstance(v, dict) and v.get('exit') == 1 for v in row.values()))
print(n, 'changes; reported by the check of their own property:', hit, '; by some check:', anyhit)
