#!/bin/bash
# usage: tools/try_patch.sh <patch.diff> <Cxx> [<Cyy> ...]   - applies the patch to /repo, runs the quick checks, reverts
set -u
P=$1; shift
cd /repo || exit 9
if ! git diff --quiet; then echo "/repo is dirty"; exit 9; fi
git apply "$P" || { echo "patch does not apply"; exit 9; }
for id in "$@"; do
  (cd /verif && KVERIF_NOWRITE=1 python3-vt -m kverif check $id 2>&1 | grep -v "^  HOLDS\|^  floor" ; echo "   -> exit ${PIPESTATUS[0]} for $id")
done
git checkout -- . 
