#!/bin/bash
# confirms each refactoring: applies on a scratch worktree of /repo HEAD, runs the pinned suite there, removes the worktree.
# usage: verify_refactors.sh [jobs]   -> /verif/seeded/refactor/tests.txt
J=${1:-6}
OUT=${2:-/verif/seeded/refactor}/tests.txt; RDIR=${2:-/verif/seeded/refactor}
: > $OUT
one() {
  d=$1; n=$(basename $d); w=/tmp/rfv/$n
  git -C /repo worktree add -q --detach $w HEAD >/dev/null 2>&1
  if git -C $w apply $d/patch.diff; then
    r=$(cd $w && /venv/bin/python -m pytest -q -p no:cacheprovider --timeout=900 -x 2>&1 | tail -1)
    imp=$(cd $w && /venv/bin/python -c "import kawin,os;print(os.path.dirname(kawin.__file__))" 2>&1 | tail -1)
  else r="APPLY FAILED"; fi
  echo "$n | $r | $imp" >> $OUT
  git -C /repo worktree remove --force $w
}
export -f one; export OUT
mkdir -p /tmp/rfv
ls -d $RDIR/C*/ | xargs -P $J -I{} bash -c 'one {}'
git -C /repo worktree prune; rmdir /tmp/rfv 2>/dev/null
sort -o $OUT $OUT
