#!/bin/bash
# verify_seeds.sh <dir with Cxx-mN/{patch.diff,demo.py}> [jobs]: confirms every seeded breaking change in a scratch worktree of /repo HEAD:
# demo exits 0 unchanged, non-zero with the change, full suite passes with the change.  Writes <dir>/confirm.txt
D=$1; J=${2:-5}
: > $D/confirm.txt
one() {
  d=$1; D=$2; n=$(basename $d); w=/tmp/sdv/$n
  git -C /repo worktree add -q --detach $w HEAD >/dev/null 2>&1
  ( cd $w && PYTHONPATH=$w PYTHONHASHSEED=0 timeout 900 /venv/bin/python $d/demo.py >/dev/null 2>&1 ); e0=$?
  if git -C $w apply $d/patch.diff; then
    ( cd $w && PYTHONPATH=$w PYTHONHASHSEED=0 timeout 900 /venv/bin/python $d/demo.py >/dev/null 2>&1 ); e1=$?
    r=$(cd $w && /venv/bin/python -m pytest -q -p no:cacheprovider --timeout=900 -x 2>&1 | tail -1)
  else e1=APPLYFAIL; r=-; fi
  echo "$n | demo unchanged=$e0 changed=$e1 | $r" >> $D/confirm.txt
  git -C /repo worktree remove --force $w
}
export -f one
mkdir -p /tmp/sdv
ls -d $D/C*-m*/ | xargs -P $J -I{} bash -c "one {} $D"
git -C /repo worktree prune; rmdir /tmp/sdv 2>/dev/null
sort -o $D/confirm.txt $D/confirm.txt
